import RdsModel
import RdsSpec.Monitors
import RdsSpec.Statements
import RdsProofs.Frame
import RdsProofs.Inv
/-!
# RdsProofs.C14Proofs — hex-string input
-/
namespace RDS

def isHexByte (c : Nat) : Bool := (48 ≤ c && c ≤ 57) || (65 ≤ c && c ≤ 70) || (97 ≤ c && c ≤ 102)

/-! ## single digits -/

theorem c14_hexVal_isSome (c : Nat) : (hexVal? c).isSome = isHexByte c := by
  unfold hexVal? isHexByte
  by_cases h1 : (48 ≤ c && c ≤ 57) = true
  · simp [h1]
  · by_cases h2 : (65 ≤ c && c ≤ 70) = true
    · simp [h1, h2]
    · by_cases h3 : (97 ≤ c && c ≤ 102) = true
      · simp [h1, h2, h3]
      · simp [h1, h2, h3]

theorem hexVal_digit (c v : Nat) (h : hexVal? c = some v) :
    v < 16 ∧ ((48 ≤ c ∧ c ≤ 57 ∧ v = c - 48) ∨ (65 ≤ c ∧ c ≤ 70 ∧ v = c - 55) ∨ (97 ≤ c ∧ c ≤ 102 ∧ v = c - 87)) := by
  unfold hexVal? at h
  split at h
  · rename_i hc
    simp only [Bool.and_eq_true, decide_eq_true_eq] at hc
    injection h with h; omega
  · split at h
    · rename_i hc
      simp only [Bool.and_eq_true, decide_eq_true_eq] at hc
      injection h with h; omega
    · split at h
      · rename_i hc
        simp only [Bool.and_eq_true, decide_eq_true_eq] at hc
        injection h with h; omega
      · cases h

/-! ## the accumulator fold -/

/-- the step function of `hexNum?` -/
def c14_hexStep (acc : Option Nat) (c : Nat) : Option Nat :=
  match acc, hexVal? c with
  | some a, some v => some (a * 16 + v)
  | _, _ => none

theorem c14_hexNum_eq_foldl (cs : List Nat) : hexNum? cs = cs.foldl c14_hexStep (some 0) := rfl

theorem c14_hexStep_none (c : Nat) : c14_hexStep none c = none := rfl

theorem c14_hexStep_some (a c v : Nat) (h : hexVal? c = some v) : c14_hexStep (some a) c = some (a * 16 + v) := by
  simp [c14_hexStep, h]

theorem c14_hexStep_some_none (a c : Nat) (h : hexVal? c = none) : c14_hexStep (some a) c = none := by
  simp [c14_hexStep, h]

theorem c14_hexFold_none (cs : List Nat) : cs.foldl c14_hexStep none = none := by
  induction cs with
  | nil => rfl
  | cons c cs ih => rw [List.foldl_cons, c14_hexStep_none]; exact ih

theorem c14_hexFold_isSome (cs : List Nat) : ∀ a, (cs.foldl c14_hexStep (some a)).isSome = cs.all isHexByte := by
  induction cs with
  | nil => intro a; rfl
  | cons c cs ih =>
    intro a
    rw [List.foldl_cons, List.all_cons, ← c14_hexVal_isSome]
    cases hv : hexVal? c with
    | none => rw [c14_hexStep_some_none a c hv, c14_hexFold_none]; rfl
    | some v => rw [c14_hexStep_some a c v hv, ih]; rfl

theorem c14_hexNum_isSome (cs : List Nat) : (hexNum? cs).isSome = cs.all isHexByte :=
  c14_hexFold_isSome cs 0

theorem c14_hexFold_lt (cs : List Nat) : ∀ a k r, a < 16 ^ k → cs.foldl c14_hexStep (some a) = some r →
    r < 16 ^ (k + cs.length) := by
  induction cs with
  | nil =>
    intro a k r ha h
    simp only [List.foldl_nil, Option.some.injEq] at h
    subst h; simpa using ha
  | cons c cs ih =>
    intro a k r ha h
    rw [List.foldl_cons] at h
    cases hv : hexVal? c with
    | none => rw [c14_hexStep_some_none a c hv, c14_hexFold_none] at h; cases h
    | some v =>
      rw [c14_hexStep_some a c v hv] at h
      have hv16 := (hexVal_digit c v hv).1
      have hp : (16 : Nat) ^ (k + 1) = 16 ^ k * 16 := Nat.pow_succ 16 k
      have := ih (a * 16 + v) (k + 1) r (by rw [hp]; omega) h
      rw [List.length_cons]
      have e : k + (cs.length + 1) = k + 1 + cs.length := by omega
      rw [e]; exact this

theorem c14_hexNum_lt (cs : List Nat) (r : Nat) (h : hexNum? cs = some r) : r < 16 ^ cs.length := by
  have := c14_hexFold_lt cs 0 0 r (by decide) h
  simpa using this

/-- value of four hex digits is positional -/
theorem hexNum4 (c0 c1 c2 c3 v0 v1 v2 v3 : Nat) (h0 : hexVal? c0 = some v0) (h1 : hexVal? c1 = some v1)
    (h2 : hexVal? c2 = some v2) (h3 : hexVal? c3 = some v3) :
    hexNum? [c0, c1, c2, c3] = some (4096 * v0 + 256 * v1 + 16 * v2 + v3) := by
  rw [c14_hexNum_eq_foldl]
  simp only [List.foldl_cons, List.foldl_nil]
  rw [c14_hexStep_some 0 c0 v0 h0, c14_hexStep_some _ c1 v1 h1, c14_hexStep_some _ c2 v2 h2, c14_hexStep_some _ c3 v3 h3]
  congr 1
  omega

/-! ## `utilsConvert` -/

theorem c14_all_split (p : Nat → Bool) (l : List Nat) :
    l.all p = ((l.take 4).all p && ((l.drop 4).take 4).all p && ((l.drop 8).take 4).all p &&
      ((l.drop 12).take 4).all p && (l.drop 16).all p) := by
  have e1 : l = l.take 4 ++ ((l.drop 4).take 4 ++ ((l.drop 8).take 4 ++ ((l.drop 12).take 4 ++ l.drop 16))) := by
    have d8 : (l.drop 4).drop 4 = l.drop 8 := by rw [List.drop_drop]
    have d12 : (l.drop 8).drop 4 = l.drop 12 := by rw [List.drop_drop]
    have d16 : (l.drop 12).drop 4 = l.drop 16 := by rw [List.drop_drop]
    rw [← d16, List.take_append_drop, ← d12, List.take_append_drop, ← d8, List.take_append_drop,
      List.take_append_drop]
  conv => lhs; rw [e1]
  simp only [List.all_append, Bool.and_assoc]

/-- the decoded group in terms of the five parts -/
theorem c14_utilsConvert_some (bytes : List Nat) (g : Group) (h : utilsConvert bytes = some g) :
    (bytes.length = 16 ∨ bytes.length = 18) ∧ ∃ e,
      hexNum? (bytes.take 4) = some g.a ∧ hexNum? ((bytes.drop 4).take 4) = some g.b ∧
      hexNum? ((bytes.drop 8).take 4) = some g.c ∧ hexNum? ((bytes.drop 12).take 4) = some g.d ∧
      hexNum? (bytes.drop 16) = some e ∧
      g.ea = e / 64 % 4 ∧ g.eb = e / 16 % 4 ∧ g.ec = e / 4 % 4 ∧ g.ed = e % 4 := by
  unfold utilsConvert at h
  split at h
  · rename_i hlen
    simp only [Bool.or_eq_true, decide_eq_true_eq] at hlen
    refine ⟨hlen, ?_⟩
    split at h
    · rename_i a b c d e ha hb hc hd he
      injection h with h
      subst h
      exact ⟨e, ha, hb, hc, hd, he, rfl, rfl, rfl, rfl⟩
    · cases h
  · cases h

/-- accepted exactly when the input consists of 16 or 18 hexadecimal digits and nothing else -/
theorem C14_accept_iff (bytes : List Nat) :
    (utilsConvert bytes).isSome = true ↔ ((bytes.length = 16 ∨ bytes.length = 18) ∧ ∀ c ∈ bytes, isHexByte c = true) := by
  rw [← List.all_eq_true, c14_all_split, ← c14_hexNum_isSome, ← c14_hexNum_isSome, ← c14_hexNum_isSome, ← c14_hexNum_isSome,
    ← c14_hexNum_isSome]
  unfold utilsConvert
  by_cases hlen : (bytes.length = 16 ∨ bytes.length = 18)
  · have hl : (decide (bytes.length = 16) || decide (bytes.length = 18)) = true := by
      simpa using hlen
    rw [if_pos hl]
    cases hexNum? (bytes.take 4) <;> cases hexNum? ((bytes.drop 4).take 4) <;>
      cases hexNum? ((bytes.drop 8).take 4) <;> cases hexNum? ((bytes.drop 12).take 4) <;>
      cases hexNum? (bytes.drop 16) <;> simp [hlen]
  · have hl : ¬ (decide (bytes.length = 16) || decide (bytes.length = 18)) = true := by
      simpa using hlen
    rw [if_neg hl]
    simp [hlen]

/-- decoded blocks are 16-bit, error levels are the four 2-bit fields of the trailing byte (0 when absent) -/
theorem C14_decoded (bytes : List Nat) (g : Group) (h : utilsConvert bytes = some g) :
    g.Bounded ∧ g.ea < 4 ∧ g.eb < 4 ∧ g.ec < 4 ∧ g.ed < 4 ∧
    (bytes.length = 16 → g.ea = 0 ∧ g.eb = 0 ∧ g.ec = 0 ∧ g.ed = 0) ∧
    (∀ e, bytes.length = 18 → hexNum? (bytes.drop 16) = some e →
        g.ea = e / 64 % 4 ∧ g.eb = e / 16 % 4 ∧ g.ec = e / 4 % 4 ∧ g.ed = e % 4) ∧
    hexNum? (bytes.take 4) = some g.a ∧ hexNum? ((bytes.drop 4).take 4) = some g.b ∧
    hexNum? ((bytes.drop 8).take 4) = some g.c ∧ hexNum? ((bytes.drop 12).take 4) = some g.d := by
  obtain ⟨hlen, e, ha, hb, hc, hd, he, hea, heb, hec, hed⟩ := c14_utilsConvert_some bytes g h
  have la : (bytes.take 4).length = 4 := by rw [List.length_take]; omega
  have lb : ((bytes.drop 4).take 4).length = 4 := by rw [List.length_take, List.length_drop]; omega
  have lc : ((bytes.drop 8).take 4).length = 4 := by rw [List.length_take, List.length_drop]; omega
  have ld : ((bytes.drop 12).take 4).length = 4 := by rw [List.length_take, List.length_drop]; omega
  have ba := c14_hexNum_lt _ _ ha
  have bb := c14_hexNum_lt _ _ hb
  have bc := c14_hexNum_lt _ _ hc
  have bd := c14_hexNum_lt _ _ hd
  rw [la] at ba; rw [lb] at bb; rw [lc] at bc; rw [ld] at bd
  have p4 : (16 : Nat) ^ 4 = 65536 := by decide
  rw [p4] at ba bb bc bd
  refine ⟨⟨ba, bb, bc, bd, by omega, by omega, by omega, by omega⟩, by omega, by omega, by omega, by omega,
    ?_, ?_, ha, hb, hc, hd⟩
  · intro h16
    have l0 : (bytes.drop 16).length = 0 := by rw [List.length_drop]; omega
    have be := c14_hexNum_lt _ _ he
    rw [l0] at be
    have : e = 0 := by simpa using be
    subst this
    omega
  · intro e' _ he'
    rw [he] at he'
    injection he' with he'
    subst he'
    exact ⟨hea, heb, hec, hed⟩

/-- a well-formed string has exactly the effect of the binary call with the decoded group -/
theorem C14_equiv (cfg : Cfg) (s : State) (bytes : List Nat) (g : Group) (h : utilsConvert bytes = some g) :
    step cfg s (.parseString (some bytes)) = step cfg s (.parse g) := by
  simp only [step, h]

/-- every other input, including NULL: returns false, no callback, state untouched -/
theorem C14_reject (cfg : Cfg) (s : State) (x : Option (List Nat)) (h : (Op.parseString x).group? = none) :
    step cfg s (.parseString x) = (s, [], false) := by
  cases x with
  | none => rfl
  | some b =>
    have h' : utilsConvert b = none := h
    simp only [step, h']

theorem chkC14_ok (cfg : Cfg) (s : State) (op : Op) : chkC14 (recOf cfg s op) = true := by
  cases op with
  | parseString x =>
    cases hg : (Op.parseString x).group? with
    | none =>
      have hs := C14_reject cfg s x hg
      simp only [chkC14, recOf, hs, hg]
      simp
    | some g =>
      cases x with
      | none => cases hg
      | some b =>
        have h' : utilsConvert b = some g := hg
        simp only [chkC14, recOf, hg, step, h']
  | init => rfl
  | clear => rfl
  | parse g => rfl
  | setExt v => rfl
  | setCorr t k v => rfl
  | setProg t v => rfl
  | register c on => rfl
  | userData n => rfl
  | getters => rfl

#print axioms C14_accept_iff
#print axioms hexNum4
#print axioms hexVal_digit
#print axioms C14_decoded
#print axioms C14_equiv
#print axioms C14_reject
#print axioms chkC14_ok

end RDS
