import RdsModel.Generated
import RdsModel.Text
import RdsSpec.Reference
import RdsSpec.TableCheck
import RdsSpec.Statements
/-!
# RdsProofs.TableBase — lifting lemmas, well-formedness of the reference tables, constants the model hard-codes

`Generated.*` is read out of the compiled library on every run; `Reference.*` is the hand-written
oracle. Every theorem rests on closed, finite `Bool` facts evaluated by the kernel (`decide +kernel`)
over the *whole* table (one pass: indexing a 256-entry list per cell is quadratic in the kernel), then
lifted to `∀` by the `tbl_…` lemmas of `RdsProofs.TableBase`.
-/

-- the kernel evaluations are memory-bound; checking them concurrently is slower than in sequence
set_option Elab.async false

namespace RDS
open RDS.TableCheck

/-! ## lifting lemmas -/

theorem tbl_getD_of_eq_map_range {α : Type} {l : List α} {n : Nat} {f : Nat → α}
    (h : l = (List.range n).map f) (a : Nat) (ha : a < n) (d : α) : l.getD a d = f a := by
  subst h
  simp [List.getD_eq_getElem?_getD, ha]

theorem tbl_getD_set_ne {α : Type} (l : List α) {i a : Nat} (v d : α) (h : i ≠ a) :
    (l.set i v).getD a d = l.getD a d := by
  simp [List.getD_eq_getElem?_getD, List.getElem?_set_ne h]

theorem tbl_getD_mem_or_default {α : Type} (l : List α) (i : Nat) (d : α) :
    l.getD i d ∈ l ∨ l.getD i d = d := by
  rw [List.getD_eq_getElem?_getD]
  cases h : l[i]? with
  | none => exact Or.inr rfl
  | some x => exact Or.inl (List.mem_of_getElem? h)

/-- a `Bool` predicate checked on every (index, value) of a list holds at every index -/
theorem tbl_zipIdx_all {α : Type} {l : List α} {p : Nat → α → Bool}
    (h : l.zipIdx.all (fun xi => p xi.2 xi.1) = true) (i : Nat) (d : α) (hi : i < l.length) :
    p i (l.getD i d) = true := by
  have hx : l[i]? = some (l.getD i d) := by
    simp [List.getD_eq_getElem?_getD, List.getElem?_eq_getElem hi]
  exact List.all_eq_true.mp h (l.getD i d, i) (List.mem_zipIdx_iff_getElem?.mpr hx)

/-! ## the reference tables are well-formed (guards against a malformed oracle) -/

theorem tbl_reference_shape :
    Reference.g0.length = 224 ∧
    Reference.countries.map (fun r => r.1.enumerator) = List.range Reference.countryCount ∧
    Reference.eccCodes =
      [0xA0, 0xA1, 0xA2, 0xA3, 0xA4, 0xA5, 0xA6, 0xD0, 0xD1, 0xD2, 0xD3, 0xD4,
       0xE0, 0xE1, 0xE2, 0xE3, 0xE4, 0xE5, 0xF0, 0xF1, 0xF2, 0xF3, 0xF4] ∧
    Reference.iecColumns.all (fun c => c.2.length == 15) = true ∧
    Reference.iecTable.map List.length = List.replicate 17 256 ∧
    (∀ t r, (Reference.pty t r).length = 32) := by
  refine ⟨by decide +kernel, by decide +kernel, by decide +kernel, by decide +kernel,
    by decide +kernel, ?_⟩
  intro t r; cases t <;> cases r <;> decide +kernel

/-- the cells of `row` (columns counted from `i`) at the ascending column numbers `ps` -/
def tbl_pick : List Nat → List Nat → Nat → List Nat
  | [], _, _ => []
  | _ :: _, [], _ => []
  | x :: xs, p :: ps, i =>
    if i == p then x :: tbl_pick xs ps (i + 1) else tbl_pick xs (p :: ps) (i + 1)

/-- the linear row builder puts every entry of `iecColumns` at its (nibble, ECC) address: row
`k + 2` of `iecTable`, read at the 23 allocated ECC columns, is the `k`-th entry of every column
(with `C11_unknown` for all other cells this characterises `Reference.iecTable`) -/
theorem tbl_iec_columns :
    (Reference.iecTable.drop 2).zipIdx.all (fun rk =>
      tbl_pick rk.1 Reference.eccCodes 0 ==
        Reference.iecColumns.map (fun c => (c.2.getD rk.2 .unknown).enumerator)) = true ∧
    Reference.iecTable.length = 17 := by
  refine ⟨by decide +kernel, by decide +kernel⟩

theorem tbl_countries_length : Reference.countries.length = 221 := by decide +kernel

theorem tbl_generated_lengths :
    Generated.g0.length = 256 ∧ Generated.narrow.length = 256 ∧
    Generated.countryName.length = 256 ∧ Generated.countryIso.length = 256 ∧
    Generated.eccCountry.map List.length = List.replicate 17 256 := by
  refine ⟨by decide +kernel, by decide +kernel, by decide +kernel, by decide +kernel,
    by decide +kernel⟩


/-! ## constants the model hard-codes -/

theorem caps_match :
    Generated.capPs = RDS.capPs ∧ Generated.capRt = RDS.capRt ∧ Generated.capPtyn = RDS.capPtyn ∧
    Generated.afBytes * 8 = RDS.afBits := by decide +kernel

theorem consts_match :
    Generated.errNone = 0 ∧ Generated.errSmall = 1 ∧ Generated.errLarge = 2 ∧
    Generated.errUncorrectable = 3 ∧ Generated.strUncorrectable = 10 ∧
    Generated.strUncorrectable = RDS.blank.lvl ∧
    Generated.countryUnknown = 0 ∧ Generated.countryCount = Reference.countryCount ∧
    Generated.piUnknown = -1 ∧ Generated.ptyUnknown = -1 ∧ Generated.tpUnknown = -1 ∧
    Generated.taUnknown = -1 ∧ Generated.msUnknown = -1 ∧ Generated.eccUnknown = -1 ∧
    RDS.Scalars.cleared.pi = Generated.piUnknown ∧ RDS.Scalars.cleared.pty = Generated.ptyUnknown ∧
    RDS.Scalars.cleared.tp = Generated.tpUnknown ∧ RDS.Scalars.cleared.ta = Generated.taUnknown ∧
    RDS.Scalars.cleared.ms = Generated.msUnknown ∧ RDS.Scalars.cleared.ecc = Generated.eccUnknown ∧
    RDS.Scalars.cleared.country = (Generated.countryUnknown : Int) ∧
    Generated.textPs = 0 ∧ Generated.textRt = 1 ∧ Generated.textPtyn = 2 ∧
    Generated.typeInfo = 0 ∧ Generated.typeData = 1 ∧
    Generated.rtFlagA = 0 ∧ Generated.rtFlagB = 1 ∧
    Generated.unicodeFlagDefault = 1 ∧ Generated.unicodeFlagNarrow = 0 := by decide +kernel


#print axioms tbl_reference_shape
#print axioms tbl_iec_columns
#print axioms tbl_generated_lengths
#print axioms caps_match
#print axioms consts_match

end RDS
