import RdsProofs.Reach
import RdsProofs.CellsProofs
import RdsProofs.ExtraProofs
import RdsProps.C02
/-!
# RdsProofs.AuditC07 — the history-level clauses of property C07 (progressive correction)

C07 (English): *With progressive correction enabled for a text, the error level of each of its cells never
increases and a cell's character is replaced only by a reception whose level is not worse than the cell's current
level, until the text is reset (clear, or an RT A/B switch). Hence once a cell holds an error-free character only
another error-free reception can change it, and a string whose every cell is eventually received error-free
converges to that string regardless of interleaved corrected receptions.*

Texts are numbered as in `RdsSpec.Monitors` (`Obs.text`, `addressed`): 0 = PS, 1 = RT buffer A, 2 = RT buffer B,
3 = PTYN; `textIdOf t` is the text whose settings govern buffer `t`.

Main theorems (all for every history `ops` from initialisation, every table `tb` with `EccOk tb`):
* `C07_history_rt` (and the generic `C07_history_text`): levels never increase along a segment without reset;
* `C07_char_replaced_only_by_not_worse`: one call, the character of a cell;
* `C07_error_free_sticky`, `C07_error_free_sticky_history`;
* `C07_converges`, `C07_converges_string`.
-/
-- THEOREM: RDS.C07_history_rt
-- THEOREM: RDS.C07_history_rt_keeps
-- THEOREM: RDS.C07_history_text
-- THEOREM: RDS.C07_char_replaced_only_by_not_worse
-- THEOREM: RDS.C07_error_free_sticky
-- THEOREM: RDS.C07_error_free_sticky_history
-- THEOREM: RDS.C07_converges
-- THEOREM: RDS.C07_converges_string
namespace RDS

/-! ## vocabulary -/

/-- cell `i` of text buffer `t` as the getters show it after the history `ops` -/
def ac07_cell (cfg : Cfg) (ops : List Op) (t i : Nat) : Cell :=
  ((Obs.ofState (run cfg ops)).text t).cells.getD i blank

/-- the call `op`, made when the history summary is `m` and the getters show `o`, resets text buffer `t`:
`init`, `clear`, or a type-2 group that makes the A/B switch discard buffer `t` (exactly the exemption of `chkC07`) -/
def ac07_resets (m : Mon) (o : Obs) (t : Nat) (op : Op) : Bool :=
  match op with
  | .init | .clear => true
  | _ =>
    match op.group? with
    | some g => switchDiscard m o g && t = 1 + g.b / 16 % 2
    | none => false

/-- Throughout the segment `ops2` played after the history `ops`: before every call progressive correction is on
for the text of buffer `t`, and the call does not reset buffer `t`. (Thresholds, extended check, callbacks … may
change arbitrarily; the last call may even switch progressive correction off.) -/
def ac07_Quiet (cfg : Cfg) (t : Nat) (ops ops2 : List Op) : Prop :=
  ∀ pre op post, ops2 = pre ++ op :: post →
    (run cfg (ops ++ pre)).set.prog (textIdOf t) = true ∧
    ac07_resets (monAfter cfg (ops ++ pre)) (Obs.ofState (run cfg (ops ++ pre))) t op = false

/-- the call `op` delivers a group with error-free block B and an error-free data block that addresses cell `i`
of text buffer `t` with byte `b` -/
def ac07_EfAddr (t i b : Nat) (op : Op) : Prop :=
  ∃ g, op.group? = some g ∧ g.eb = 0 ∧ (t, i, b, 0) ∈ addressed g

/-- a byte that `update_single` stores when received error-free: 0x0D (end of text, stored as code 0) or ≥ 0x20;
control codes below 0x20 are ignored -/
def ac07_Storable (b : Nat) : Prop := b = 0x0D ∨ 0x20 ≤ b

/-- the weighted level of C06 -/
def ac07_wl (eb ex : Nat) : Nat := if eb = 0 ∧ ex = 0 then 0 else 2 * eb + 3 * ex - 1

/-- capacities of the four buffers -/
def ac07_cap : Nat → Nat
  | 0 => capPs | 1 => capRt | 2 => capRt | _ => capPtyn

/-! ## `ac07_Quiet`: structure -/

theorem ac07_quiet_nil (cfg : Cfg) (t : Nat) (ops : List Op) : ac07_Quiet cfg t ops [] := by
  intro pre op post h
  cases pre <;> cases h

theorem ac07_quiet_cons (cfg : Cfg) (t : Nat) (ops : List Op) (op : Op) (rest : List Op) :
    ac07_Quiet cfg t ops (op :: rest) ↔
      ((run cfg ops).set.prog (textIdOf t) = true ∧
        ac07_resets (monAfter cfg ops) (Obs.ofState (run cfg ops)) t op = false) ∧
      ac07_Quiet cfg t (ops ++ [op]) rest := by
  constructor
  · intro h
    refine ⟨?_, ?_⟩
    · have := h [] op rest rfl
      simpa using this
    · intro pre op' post hr
      have := h (op :: pre) op' post (by rw [hr]; rfl)
      simpa [List.append_assoc] using this
  · intro ⟨h1, h2⟩ pre op' post hr
    cases pre with
    | nil =>
      simp only [List.nil_append, List.cons.injEq] at hr
      obtain ⟨rfl, _⟩ := hr
      simpa using h1
    | cons a pre =>
      simp only [List.cons_append, List.cons.injEq] at hr
      obtain ⟨rfl, hr⟩ := hr
      have := h2 pre op' post hr
      simpa [List.append_assoc] using this

/-- a suffix of a quiet segment is quiet -/
theorem ac07_quiet_suffix (cfg : Cfg) (t : Nat) (ops pre rest : List Op)
    (h : ac07_Quiet cfg t ops (pre ++ rest)) : ac07_Quiet cfg t (ops ++ pre) rest := by
  intro p op post hr
  have := h (pre ++ p) op post (by rw [hr, List.append_assoc])
  simpa [List.append_assoc] using this

/-- executable form of `ac07_Quiet` (for concrete histories) -/
def ac07_quietB (cfg : Cfg) (t : Nat) : Mon → State → List Op → Bool
  | _, _, [] => true
  | m, s, op :: rest =>
    s.set.prog (textIdOf t) && !ac07_resets m (Obs.ofState s) t op &&
      ac07_quietB cfg t (m.step cfg op) (step cfg s op).1 rest

theorem ac07_quiet_of_B (cfg : Cfg) (t : Nat) (ops2 : List Op) :
    ∀ ops, ac07_quietB cfg t (monAfter cfg ops) (run cfg ops) ops2 = true → ac07_Quiet cfg t ops ops2 := by
  induction ops2 with
  | nil => intro ops _; exact ac07_quiet_nil cfg t ops
  | cons op rest ih =>
    intro ops h
    simp only [ac07_quietB, Bool.and_eq_true, Bool.not_eq_true'] at h
    rw [ac07_quiet_cons]
    refine ⟨⟨h.1.1, h.1.2⟩, ih _ ?_⟩
    rw [monAfter_snoc, run_snoc]
    exact h.2

/-! ## the table `addressed`: positions are in range and pairwise distinct -/

theorem ac07_addressed_bound (g : Group) (t i b ex : Nat) (h : (t, i, b, ex) ∈ addressed g) :
    t < 4 ∧ i < ac07_cap t := by
  unfold addressed at h
  simp only [] at h
  split at h
  · simp only [List.mem_cons, Prod.mk.injEq, List.mem_nil_iff, or_false] at h
    rcases h with ⟨rfl, rfl, _⟩ | ⟨rfl, rfl, _⟩ <;> simp [ac07_cap, capPs] <;> omega
  · split at h
    · have hlt : g.b / 16 % 2 < 2 := Nat.mod_lt _ (by decide)
      have hc : ∀ f, f < 2 → ac07_cap (1 + f) = 64 := by
        intro f hf
        have : f = 0 ∨ f = 1 := by omega
        rcases this with rfl | rfl <;> rfl
      split at h
      · simp only [List.mem_cons, Prod.mk.injEq, List.mem_nil_iff, or_false] at h
        rcases h with ⟨rfl, rfl, _⟩ | ⟨rfl, rfl, _⟩ <;> (rw [hc _ hlt]; omega)
      · simp only [List.mem_cons, Prod.mk.injEq, List.mem_nil_iff, or_false] at h
        rcases h with ⟨rfl, rfl, _⟩ | ⟨rfl, rfl, _⟩ | ⟨rfl, rfl, _⟩ | ⟨rfl, rfl, _⟩ <;> (rw [hc _ hlt]; omega)
    · split at h
      · simp only [List.mem_cons, Prod.mk.injEq, List.mem_nil_iff, or_false] at h
        rcases h with ⟨rfl, rfl, _⟩ | ⟨rfl, rfl, _⟩ | ⟨rfl, rfl, _⟩ | ⟨rfl, rfl, _⟩ <;> simp [ac07_cap, capPtyn] <;> omega
      · cases h

theorem ac07_addressed_find (g : Group) (t i b ex : Nat) (h : (t, i, b, ex) ∈ addressed g) :
    ((addressed g).filter (fun a => a.1 = t)).find? (fun a => a.2.1 = i) = some (t, i, b, ex) := by
  generalize hA : addressed g = L at h ⊢
  unfold addressed at hA
  simp only [] at hA
  split at hA
  · subst hA
    simp only [List.mem_cons, Prod.mk.injEq, List.mem_nil_iff, or_false] at h
    rcases h with ⟨rfl, rfl, rfl, rfl⟩ | ⟨rfl, rfl, rfl, rfl⟩ <;> simp [List.filter, List.find?]
  · split at hA
    · split at hA
      · subst hA
        simp only [List.mem_cons, Prod.mk.injEq, List.mem_nil_iff, or_false] at h
        rcases h with ⟨rfl, rfl, rfl, rfl⟩ | ⟨rfl, rfl, rfl, rfl⟩ <;> simp [List.filter, List.find?]
      · subst hA
        simp only [List.mem_cons, Prod.mk.injEq, List.mem_nil_iff, or_false] at h
        rcases h with ⟨rfl, rfl, rfl, rfl⟩ | ⟨rfl, rfl, rfl, rfl⟩ | ⟨rfl, rfl, rfl, rfl⟩ | ⟨rfl, rfl, rfl, rfl⟩ <;>
          simp [List.filter, List.find?]
    · split at hA
      · subst hA
        simp only [List.mem_cons, Prod.mk.injEq, List.mem_nil_iff, or_false] at h
        rcases h with ⟨rfl, rfl, rfl, rfl⟩ | ⟨rfl, rfl, rfl, rfl⟩ | ⟨rfl, rfl, rfl, rfl⟩ | ⟨rfl, rfl, rfl, rfl⟩ <;>
          simp [List.filter, List.find?]
      · subst hA; cases h

/-! ## one call -/

theorem ac07_text_length (tb : Tabs) (s : State) (hw : WF tb s) (t : Nat) : (s.text t).length = ac07_cap t := by
  match t with
  | 0 => exact hw.psLen
  | 1 => exact hw.rt0Len
  | 2 => exact hw.rt1Len
  | _ + 3 => exact hw.ptynLen

theorem ac07_cell_eq (cfg : Cfg) (ops : List Op) (t i : Nat) :
    ac07_cell cfg ops t i = ((run cfg ops).text t).getD i blank := by
  unfold ac07_cell; rw [obs_text_cells]

/-- a delivered group: buffer `t` afterwards, in closed form -/
theorem ac07_step_group (tb : Tabs) (m : Mon) (s : State) (op : Op) (g : Group) (hl : Link m s) (hw : WF tb s)
    (hg : op.group? = some g) (t : Nat) (ht : t < 4) :
    (step tb.cfg s op).1.text t =
      expCells tb.cfg s.set (textIdOf t) g.eb
        (if switchDiscard m (Obs.ofState s) g && t = 1 + g.b / 16 % 2 then (s.text t).cleared else s.text t)
        (if rtNoisy m g then [] else (addressed g).filter (fun a => a.1 = t)) := by
  rw [step_of_group _ _ _ _ hg,
    process_text tb.cfg m s g hl.lastFlag hw.psLen hw.rt0Len hw.rt1Len hw.ptynLen t ht, expectedText_eq,
    obs_text_cells]
  rfl

theorem ac07_resets_group (m : Mon) (o : Obs) (t : Nat) (op : Op) (g : Group) (hg : op.group? = some g) :
    ac07_resets m o t op = (switchDiscard m o g && decide (t = 1 + g.b / 16 % 2)) := by
  cases op <;> simp [Op.group?] at hg <;> simp [ac07_resets, Op.group?, hg]

/-- one call that does not reset buffer `t`: every cell either keeps its content or is the closed form `cellSpec`
of a reception addressed to it -/
theorem ac07_step_cell (tb : Tabs) (m : Mon) (s : State) (op : Op) (hl : Link m s) (hw : WF tb s)
    (t : Nat) (ht : t < 4) (hnr : ac07_resets m (Obs.ofState s) t op = false) (i : Nat) :
    ((step tb.cfg s op).1.text t).getD i blank = (s.text t).getD i blank ∨
    ∃ g b ex, op.group? = some g ∧ rtNoisy m g = false ∧ (t, i, b, ex) ∈ addressed g ∧
      ((step tb.cfg s op).1.text t).getD i blank =
        cellSpec tb.cfg (s.set.corr (textIdOf t) .info) (s.set.corr (textIdOf t) .data) (s.set.prog (textIdOf t))
          ((s.text t).getD i blank) b g.eb ex := by
  have hi : op ≠ .init := by intro h; subst h; cases hnr
  have hc : op ≠ .clear := by intro h; subst h; cases hnr
  cases hg : op.group? with
  | none => left; rw [step_text_none _ _ _ hi hc hg]
  | some g =>
    rw [ac07_resets_group _ _ _ _ _ hg] at hnr
    rw [ac07_step_group tb m s op g hl hw hg t ht, hnr]
    simp only [Bool.false_eq_true, if_false]
    by_cases hlt : i < (s.text t).length
    · rw [expCells_getD _ _ _ _ _ _ _ hlt]
      cases hn : rtNoisy m g with
      | true => left; simp
      | false =>
        simp only [Bool.false_eq_true, if_false]
        cases hf : ((addressed g).filter (fun a => a.1 = t)).find? (fun a => a.2.1 = i) with
        | none => left; rfl
        | some a =>
          obtain ⟨t', i', b, ex⟩ := a
          right
          have h1 := List.find?_some hf
          have h2 := List.mem_of_find?_eq_some hf
          simp only [decide_eq_true_eq] at h1
          rw [List.mem_filter] at h2
          have h3 := h2.2
          simp only [decide_eq_true_eq] at h3
          subst h1; subst h3
          exact ⟨g, b, ex, rfl, hn, h2.1, rfl⟩
    · left
      have hlen : (expCells tb.cfg s.set (textIdOf t) g.eb (s.text t)
          (if rtNoisy m g then [] else (addressed g).filter (fun a => a.1 = t))).length = (s.text t).length := by
        simp [expCells]
      rw [List.getD_eq_getElem?_getD, List.getD_eq_getElem?_getD, List.getElem?_eq_none (by omega),
        List.getElem?_eq_none (by omega)]

/-- what an accepted reception under progressive correction looks like -/
theorem ac07_cellSpec_changed (cfg : Cfg) (info data : Nat) (old : Cell) (b eb ex : Nat)
    (h : cellSpec cfg info data true old b eb ex ≠ old) :
    cellSpec cfg info data true old b eb ex = ⟨conv cfg b, ac07_wl eb ex⟩ ∧ ac07_wl eb ex ≤ old.lvl ∧
      eb ≤ info ∧ ex ≤ data ∧ ac07_Storable b ∧ (0x7F ≤ b → eb = 0 ∧ ex = 0) ∧ (b = 0x0D → eb = 0 ∧ ex = 0) := by
  have hw : ac07_wl eb ex = (if (decide (eb = 0) && decide (ex = 0)) = true then 0 else 2 * eb + 3 * ex - 1) := by
    unfold ac07_wl
    by_cases h1 : eb = 0 <;> by_cases h2 : ex = 0 <;> simp [h1, h2]
  unfold cellSpec at h ⊢
  simp only [] at h ⊢
  rw [← hw] at h ⊢
  split at h
  · rename_i hacc
    rw [if_pos hacc]
    simp only [Bool.and_eq_true, Bool.or_eq_true, Bool.not_true, Bool.false_or, decide_eq_true_eq,
      bne_iff_ne, ne_eq, Bool.not_eq_true'] at hacc
    obtain ⟨⟨⟨⟨⟨⟨h1, h2⟩, h3⟩, h4⟩, h5⟩, h6⟩, _⟩ := hacc
    refine ⟨rfl, h3, h1, h2, ?_, ?_, ?_⟩
    · unfold ac07_Storable; rcases h5 with h5 | h5 <;> omega
    · intro hb; rcases h6 with h6 | h6
      · omega
      · exact h6
    · intro hb; rcases h4 with h4 | h4
      · exact absurd hb h4
      · exact h4
  · exact absurd rfl h

/-- `ac07_step_cell` at the end of a history -/
theorem ac07_hist_step (tb : Tabs) (h : EccOk tb) (ops : List Op) (op : Op) (t : Nat) (ht : t < 4)
    (hnr : ac07_resets (monAfter tb.cfg ops) (Obs.ofState (run tb.cfg ops)) t op = false) (i : Nat) :
    ac07_cell tb.cfg (ops ++ [op]) t i = ac07_cell tb.cfg ops t i ∨
    ∃ g b ex, op.group? = some g ∧ rtNoisy (monAfter tb.cfg ops) g = false ∧ (t, i, b, ex) ∈ addressed g ∧
      ac07_cell tb.cfg (ops ++ [op]) t i =
        cellSpec tb.cfg ((run tb.cfg ops).set.corr (textIdOf t) .info) ((run tb.cfg ops).set.corr (textIdOf t) .data)
          ((run tb.cfg ops).set.prog (textIdOf t)) (ac07_cell tb.cfg ops t i) b g.eb ex := by
  have hr := reach tb h ops
  rw [ac07_cell_eq, ac07_cell_eq, run_snoc]
  exact ac07_step_cell tb _ _ op hr.1 hr.2 t ht hnr i

/-! ## (b) the character of a cell is replaced only by a reception that is not worse -/

/-- **C07, second clause.** For every history `ops` and every next call `op`: if progressive correction is on for the
text of buffer `t` before the call, the call does not reset that buffer (not `init`/`clear`, not the RT switch-discard
of that buffer), and the character of cell `i` differs after the call, then the call delivers a group `g` that
addresses cell `(t, i)` with a byte `b` carried by a block with error level `ex`, the group is not ignored for RT
(`rtNoisy`), it passes the thresholds, the cell now holds the table image of `b` at the weighted level of C06
(`ac07_wl g.eb ex` = 0 if both error-free, else 2·eB + 3·eX − 1), and that level is ≤ the level the cell had before. -/
theorem C07_char_replaced_only_by_not_worse (tb : Tabs) (h : EccOk tb) (ops : List Op) (op : Op)
    (t : Nat) (ht : t < 4) (i : Nat)
    (hp : (run tb.cfg ops).set.prog (textIdOf t) = true)
    (hnr : ac07_resets (monAfter tb.cfg ops) (Obs.ofState (run tb.cfg ops)) t op = false)
    (hch : (ac07_cell tb.cfg (ops ++ [op]) t i).ch ≠ (ac07_cell tb.cfg ops t i).ch) :
    ∃ g b ex, op.group? = some g ∧ (t, i, b, ex) ∈ addressed g ∧ rtNoisy (monAfter tb.cfg ops) g = false ∧
      g.eb ≤ (run tb.cfg ops).set.corr (textIdOf t) .info ∧ ex ≤ (run tb.cfg ops).set.corr (textIdOf t) .data ∧
      ac07_Storable b ∧
      ac07_cell tb.cfg (ops ++ [op]) t i = ⟨conv tb.cfg b, ac07_wl g.eb ex⟩ ∧
      ac07_wl g.eb ex ≤ (ac07_cell tb.cfg ops t i).lvl := by
  rcases ac07_hist_step tb h ops op t ht hnr i with heq | ⟨g, b, ex, hg, hn, hmem, hnew⟩
  · rw [heq] at hch; exact absurd rfl hch
  · rw [hp] at hnew
    have hne : cellSpec tb.cfg ((run tb.cfg ops).set.corr (textIdOf t) .info)
        ((run tb.cfg ops).set.corr (textIdOf t) .data) true (ac07_cell tb.cfg ops t i) b g.eb ex ≠
          ac07_cell tb.cfg ops t i := by
      intro he; rw [he] at hnew; rw [hnew] at hch; exact hch rfl
    have hc := ac07_cellSpec_changed _ _ _ _ _ _ _ hne
    exact ⟨g, b, ex, hg, hmem, hn, hc.2.2.1, hc.2.2.2.1, hc.2.2.2.2.1, hnew.trans hc.1, hc.2.1⟩

/-! ## (a) levels never increase along a segment without reset -/

theorem ac07_hist_step_lvl (tb : Tabs) (h : EccOk tb) (ops : List Op) (op : Op) (t : Nat) (ht : t < 4)
    (hp : (run tb.cfg ops).set.prog (textIdOf t) = true)
    (hnr : ac07_resets (monAfter tb.cfg ops) (Obs.ofState (run tb.cfg ops)) t op = false) (i : Nat) :
    (ac07_cell tb.cfg (ops ++ [op]) t i).lvl ≤ (ac07_cell tb.cfg ops t i).lvl := by
  rcases ac07_hist_step tb h ops op t ht hnr i with heq | ⟨g, b, ex, _, _, _, hnew⟩
  · rw [heq]; exact Nat.le_refl _
  · rw [hnew, hp]; exact cellSpec_lvl_le _ _ _ _ _ _ _

theorem ac07_append_cons (ops : List Op) (op : Op) (rest : List Op) :
    ops ++ op :: rest = (ops ++ [op]) ++ rest := by simp

/-- **C07, first clause, every text buffer.** Along a segment `ops2` during which progressive correction stays on for
the text of buffer `t` and buffer `t` is not reset, no level of that buffer increases. -/
theorem C07_history_text (tb : Tabs) (h : EccOk tb) (t : Nat) (ht : t < 4) (ops2 : List Op) :
    ∀ ops : List Op, ac07_Quiet tb.cfg t ops ops2 → ∀ i,
      (ac07_cell tb.cfg (ops ++ ops2) t i).lvl ≤ (ac07_cell tb.cfg ops t i).lvl := by
  induction ops2 with
  | nil => intro ops _ i; rw [List.append_nil]; exact Nat.le_refl _
  | cons op rest ih =>
    intro ops hq i
    rw [ac07_quiet_cons] at hq
    obtain ⟨⟨hp, hnr⟩, hq'⟩ := hq
    rw [ac07_append_cons]
    exact Nat.le_trans (ih _ hq' i) (ac07_hist_step_lvl tb h ops op t ht hp hnr i)

theorem ac07_text_rt (s : State) (f : Nat) (hf : f < 2) : ((Obs.ofState s).text (1 + f)).cells = s.rt f := by
  rw [obs_text_cells, text_rt _ _ hf]

/-- **C07, first clause, RT** (the analogue of `C07_history_ps` / `C07_history_ptyn`): the levels of RT buffer `f`
(0 = A, 1 = B) never increase along a history segment `ops2` in which, before every call, RT progressive correction is
on and the call neither is `init`/`clear` nor makes the A/B switch discard buffer `f`. -/
theorem C07_history_rt (tb : Tabs) (h : EccOk tb) (ops ops2 : List Op) (f : Nat) (hf : f < 2)
    (hq : ac07_Quiet tb.cfg (1 + f) ops ops2) (i : Nat) :
    (((run tb.cfg (ops ++ ops2)).rt f).getD i blank).lvl ≤ (((run tb.cfg ops).rt f).getD i blank).lvl := by
  have := C07_history_text tb h (1 + f) (by omega) ops2 ops hq i
  unfold ac07_cell at this
  rw [ac07_text_rt _ _ hf, ac07_text_rt _ _ hf] at this
  exact this

/-! ### the same in the shape of `C07_history_ps` (syntactic `keepsProg`) -/

theorem ac07_step_prog (cfg : Cfg) (s : State) (op : Op) (id : TextId) (hp : s.set.prog id = true)
    (hk : keepsProg id op = true) : (step cfg s op).1.set.prog id = true := by
  cases op with
  | init => cases hk
  | clear => cases hk
  | parse g => show (process cfg s g).1.set.prog id = true; rw [ex_process_set]; exact hp
  | parseString x =>
    cases x with
    | none => exact hp
    | some b =>
      simp only [step]
      cases utilsConvert b with
      | none => exact hp
      | some g => show (process cfg s g).1.set.prog id = true; rw [ex_process_set]; exact hp
  | setExt v => exact hp
  | setCorr t k v =>
    show (s.set.setCorr t k v).prog id = true
    cases t <;> cases k <;> cases id <;> exact hp
  | setProg t v =>
    show (s.set.setProg t v).prog id = true
    cases t <;> cases id <;> cases v <;> first | exact hp | rfl | cases hk
  | register c on => exact hp
  | userData n => exact hp
  | getters => exact hp

theorem ac07_resets_none (m : Mon) (o : Obs) (t : Nat) (op : Op) (hi : op ≠ .init) (hc : op ≠ .clear)
    (hg : op.group? = none) : ac07_resets m o t op = false := by
  cases op <;> first | exact absurd rfl hi | exact absurd rfl hc | simp [ac07_resets, hg]

theorem ac07_quiet_of_keeps (cfg : Cfg) (t : Nat) (ops2 : List Op) :
    ∀ ops, (run cfg ops).set.prog (textIdOf t) = true →
      (∀ op ∈ ops2, keepsProg (textIdOf t) op = true) →
      (∀ pre op post g, ops2 = pre ++ op :: post → op.group? = some g →
        (switchDiscard (monAfter cfg (ops ++ pre)) (Obs.ofState (run cfg (ops ++ pre))) g &&
          decide (t = 1 + g.b / 16 % 2)) = false) →
      ac07_Quiet cfg t ops ops2 := by
  induction ops2 with
  | nil => intro ops _ _ _; exact ac07_quiet_nil cfg t ops
  | cons op rest ih =>
    intro ops hp hk hsw
    rw [ac07_quiet_cons]
    have hk0 := hk op (List.mem_cons_self ..)
    refine ⟨⟨hp, ?_⟩, ih _ ?_ (fun o ho => hk o (List.mem_cons_of_mem _ ho)) ?_⟩
    · cases hg : op.group? with
      | some g =>
        rw [ac07_resets_group _ _ _ _ _ hg]
        have := hsw [] op rest g rfl hg
        simpa using this
      | none =>
        apply ac07_resets_none _ _ _ _ _ _ hg
        · intro h; subst h; cases hk0
        · intro h; subst h; cases hk0
    · rw [run_snoc]; exact ac07_step_prog cfg _ op _ hp hk0
    · intro pre op' post g hr hg
      have := hsw (op :: pre) op' post g (by rw [hr]; rfl) hg
      simpa [List.append_assoc] using this

/-- `C07_history_rt` with the hypotheses in the shape of `C07_history_ps`: RT progressive on after `ops`, every call
of `ops2` keeps it on and is not `init`/`clear` (`keepsProg`), and no type-2 group of `ops2` makes the A/B switch
discard buffer `f` (`switchDiscard` for flag `f`, evaluated at the point of the history where the group arrives). -/
theorem C07_history_rt_keeps (tb : Tabs) (h : EccOk tb) (ops ops2 : List Op) (f : Nat) (hf : f < 2)
    (hp : (run tb.cfg ops).set.progRt = true) (hk : ∀ op ∈ ops2, keepsProg .rt op = true)
    (hsw : ∀ pre op post g, ops2 = pre ++ op :: post → op.group? = some g →
      (switchDiscard (monAfter tb.cfg (ops ++ pre)) (Obs.ofState (run tb.cfg (ops ++ pre))) g &&
        decide (f = g.b / 16 % 2)) = false)
    (i : Nat) :
    (((run tb.cfg (ops ++ ops2)).rt f).getD i blank).lvl ≤ (((run tb.cfg ops).rt f).getD i blank).lvl := by
  apply C07_history_rt tb h ops ops2 f hf
  have hid : textIdOf (1 + f) = .rt := textIdOf_rt f hf
  apply ac07_quiet_of_keeps
  · rw [hid]; exact hp
  · rw [hid]; exact hk
  · intro pre op post g hr hg
    have := hsw pre op post g hr hg
    have e : decide (1 + f = 1 + g.b / 16 % 2) = decide (f = g.b / 16 % 2) := by
      apply decide_eq_decide.mpr; omega
    rw [e]; exact this

/-! ## (c) an error-free character is changed only by another error-free reception -/

theorem ac07_wl_zero (eb ex : Nat) (h : ac07_wl eb ex ≤ 0) : eb = 0 ∧ ex = 0 := by
  unfold ac07_wl at h
  split at h
  · assumption
  · omega

theorem ac07_cell_eta (c : Cell) (ch : Nat) (h0 : c.lvl = 0) (hc : ch = c.ch) : (⟨ch, 0⟩ : Cell) = c := by
  cases c; simp_all

/-- **C07, third clause, one call.** For every history `ops` and every next call `op`: if progressive correction is on
for the text of buffer `t`, cell `i` holds a character at level 0, the call does not reset buffer `t`, and the cell
(character or level) differs after the call, then the call is an error-free reception (block B error 0 and data block
error 0) addressed to that cell, of a storable byte `b` whose table image differs from the old character; the cell then
holds that image, again at level 0. -/
theorem C07_error_free_sticky (tb : Tabs) (h : EccOk tb) (ops : List Op) (op : Op)
    (t : Nat) (ht : t < 4) (i : Nat)
    (hp : (run tb.cfg ops).set.prog (textIdOf t) = true)
    (hnr : ac07_resets (monAfter tb.cfg ops) (Obs.ofState (run tb.cfg ops)) t op = false)
    (h0 : (ac07_cell tb.cfg ops t i).lvl = 0)
    (hch : ac07_cell tb.cfg (ops ++ [op]) t i ≠ ac07_cell tb.cfg ops t i) :
    ∃ b, ac07_EfAddr t i b op ∧ ac07_Storable b ∧ conv tb.cfg b ≠ (ac07_cell tb.cfg ops t i).ch ∧
      ac07_cell tb.cfg (ops ++ [op]) t i = ⟨conv tb.cfg b, 0⟩ := by
  rcases ac07_hist_step tb h ops op t ht hnr i with heq | ⟨g, b, ex, hg, _, hmem, hnew⟩
  · exact absurd heq hch
  · rw [hp] at hnew
    have hne : cellSpec tb.cfg ((run tb.cfg ops).set.corr (textIdOf t) .info)
        ((run tb.cfg ops).set.corr (textIdOf t) .data) true (ac07_cell tb.cfg ops t i) b g.eb ex ≠
          ac07_cell tb.cfg ops t i := by
      intro he; rw [he] at hnew; exact hch hnew
    have hc := ac07_cellSpec_changed _ _ _ _ _ _ _ hne
    have hz := ac07_wl_zero g.eb ex (by rw [← h0]; exact hc.2.1)
    have hwl : ac07_wl g.eb ex = 0 := by simp [ac07_wl, hz.1, hz.2]
    have hnew' : ac07_cell tb.cfg (ops ++ [op]) t i = ⟨conv tb.cfg b, 0⟩ := by
      rw [hnew, hc.1, hwl]
    refine ⟨b, ⟨g, hg, hz.1, ?_⟩, hc.2.2.2.2.1, ?_, hnew'⟩
    · rw [← hz.2]; exact hmem
    · intro he
      apply hch
      rw [hnew']
      exact ac07_cell_eta _ _ h0 he

theorem ac07_sticky_aux (tb : Tabs) (h : EccOk tb) (t : Nat) (ht : t < 4) (i : Nat) (c : Cell) (hc0 : c.lvl = 0)
    (ops2 : List Op) :
    ∀ ops : List Op, ac07_Quiet tb.cfg t ops ops2 → ac07_cell tb.cfg ops t i = c →
      (∀ op ∈ ops2, ∀ b, ac07_EfAddr t i b op → ac07_Storable b → conv tb.cfg b = c.ch) →
      ac07_cell tb.cfg (ops ++ ops2) t i = c := by
  induction ops2 with
  | nil => intro ops _ hc _; rw [List.append_nil]; exact hc
  | cons op rest ih =>
    intro ops hq hc hno
    rw [ac07_quiet_cons] at hq
    obtain ⟨⟨hp, hnr⟩, hq'⟩ := hq
    rw [ac07_append_cons]
    apply ih _ hq' _ (fun o ho => hno o (List.mem_cons_of_mem _ ho))
    by_cases hch : ac07_cell tb.cfg (ops ++ [op]) t i = ac07_cell tb.cfg ops t i
    · rw [hch]; exact hc
    · obtain ⟨b, hef, hst, _, hnew⟩ := C07_error_free_sticky tb h ops op t ht i hp hnr (by rw [hc]; exact hc0) hch
      rw [hnew]
      exact ac07_cell_eta _ _ hc0 (hno op (List.mem_cons_self ..) b hef hst)

/-- **C07, third clause, over histories.** Once cell `i` of buffer `t` holds a character at level 0, then along any
continuation `ops2` during which progressive correction stays on and the buffer is not reset, the cell is unchanged
(character and level) unless an error-free reception addressed to it carries a storable byte with a different table
image — whatever corrected receptions, threshold changes, … are interleaved. -/
theorem C07_error_free_sticky_history (tb : Tabs) (h : EccOk tb) (ops ops2 : List Op)
    (t : Nat) (ht : t < 4) (i : Nat)
    (hq : ac07_Quiet tb.cfg t ops ops2)
    (h0 : (ac07_cell tb.cfg ops t i).lvl = 0)
    (hno : ∀ op ∈ ops2, ∀ b, ac07_EfAddr t i b op → ac07_Storable b → conv tb.cfg b = (ac07_cell tb.cfg ops t i).ch) :
    ac07_cell tb.cfg (ops ++ ops2) t i = ac07_cell tb.cfg ops t i :=
  ac07_sticky_aux tb h t ht i _ h0 ops2 ops hq rfl hno

/-! ## (d) convergence -/

/-- the end-of-text byte is stored as code 0 -/
theorem ac07_conv_eol (cfg : Cfg) : conv cfg 0x0D = 0 := by simp [conv]

/-- an error-free reception of a storable byte always lands: whatever the cell held, whatever the settings, even when
the call makes the A/B switch discard the buffer first -/
theorem ac07_recv_step (tb : Tabs) (h : EccOk tb) (ops : List Op) (op0 : Op) (t i b : Nat)
    (hrecv : ac07_EfAddr t i b op0) (hb : ac07_Storable b) :
    ac07_cell tb.cfg (ops ++ [op0]) t i = ⟨conv tb.cfg b, 0⟩ := by
  obtain ⟨g, hg, heb, hmem⟩ := hrecv
  have hr := reach tb h ops
  have hbd := ac07_addressed_bound g t i b 0 hmem
  have hn : rtNoisy (monAfter tb.cfg ops) g = false := by simp [rtNoisy, heb]
  rw [ac07_cell_eq, run_snoc, ac07_step_group tb _ _ op0 g hr.1 hr.2 hg t hbd.1, hn]
  simp only [Bool.false_eq_true, if_false]
  have hlen : i < (if (switchDiscard (monAfter tb.cfg ops) (Obs.ofState (run tb.cfg ops)) g &&
      decide (t = 1 + g.b / 16 % 2)) = true then ((run tb.cfg ops).text t).cleared
      else (run tb.cfg ops).text t).length := by
    split
    · rw [cleared_length, ac07_text_length tb _ hr.2]; exact hbd.2
    · rw [ac07_text_length tb _ hr.2]; exact hbd.2
  rw [expCells_getD _ _ _ _ _ _ _ hlen, ac07_addressed_find g t i b 0 hmem]
  simp only []
  rw [heb, C02_error_free]
  rcases hb with hb | hb
  · subst hb; simp [ac07_conv_eol]
  · have h1 : b ≠ 0x0D := by omega
    have h2 : ¬ b < 0x20 := by omega
    simp [h1, h2]

/-- **C07, last clause, one cell.** Let the history be `ops ++ op0 :: ops2` where
* `op0` is an error-free reception (block B error 0, data block error 0) addressed to cell `i` of buffer `t`,
  carrying a storable byte `b` (0x0D or ≥ 0x20) — `op0` itself may be the A/B switch that empties the buffer first,
  and the settings before it are arbitrary;
* during `ops2` progressive correction stays on for that text and the buffer is not reset (`ac07_Quiet`); thresholds
  may change arbitrarily and any receptions with corrected errors may be interleaved;
* every later error-free reception addressed to the cell that carries a storable byte has the same table image
  (error-free control codes below 0x20 are ignored by the library and need no hypothesis).
Then at the end the cell holds exactly that image at level 0: `⟨conv b, 0⟩`, which is `⟨0, 0⟩` (end of text) for
`b = 0x0D`. -/
theorem C07_converges (tb : Tabs) (h : EccOk tb) (ops : List Op) (op0 : Op) (ops2 : List Op)
    (t i b : Nat)
    (hrecv : ac07_EfAddr t i b op0) (hb : ac07_Storable b)
    (hq : ac07_Quiet tb.cfg t (ops ++ [op0]) ops2)
    (hsame : ∀ op ∈ ops2, ∀ b', ac07_EfAddr t i b' op → ac07_Storable b' → conv tb.cfg b' = conv tb.cfg b) :
    ac07_cell tb.cfg (ops ++ op0 :: ops2) t i = ⟨conv tb.cfg b, 0⟩ := by
  obtain ⟨g, hg, heb, hmem⟩ := hrecv
  have ht := (ac07_addressed_bound g t i b 0 hmem).1
  rw [ac07_append_cons]
  exact ac07_sticky_aux tb h t ht i ⟨conv tb.cfg b, 0⟩ rfl ops2 (ops ++ [op0]) hq
    (ac07_recv_step tb h ops op0 t i b ⟨g, hg, heb, hmem⟩ hb) hsame

/-- **C07, last clause, the whole string.** Let the history be `ops ++ opf :: rest`, where after the call `opf`
(which may itself reset the text, e.g. the A/B switch that starts a new RT message) progressive correction stays on
for the text of buffer `t` and the buffer is not reset. Suppose every cell `i` of the buffer is, at some point of
`opf :: rest`, addressed by an error-free reception of a storable byte `bytes i`, and every later error-free reception
addressed to it carries a storable byte with the same table image. Then at the end the buffer is exactly the string:
cell `i` is the image of `bytes i` at level 0, for every `i` — regardless of interleaved corrected receptions. -/
theorem C07_converges_string (tb : Tabs) (h : EccOk tb) (ops : List Op) (opf : Op) (rest : List Op)
    (t : Nat) (bytes : Nat → Nat)
    (hq : ac07_Quiet tb.cfg t (ops ++ [opf]) rest)
    (hall : ∀ i, i < ac07_cap t → ∃ pre op0 post, opf :: rest = pre ++ op0 :: post ∧
      ac07_EfAddr t i (bytes i) op0 ∧ ac07_Storable (bytes i) ∧
      ∀ op ∈ post, ∀ b', ac07_EfAddr t i b' op → ac07_Storable b' → conv tb.cfg b' = conv tb.cfg (bytes i)) :
    ((Obs.ofState (run tb.cfg (ops ++ opf :: rest))).text t).cells =
      (List.range (ac07_cap t)).map (fun i => (⟨conv tb.cfg (bytes i), 0⟩ : Cell)) := by
  have hcell : ∀ i, i < ac07_cap t →
      ac07_cell tb.cfg (ops ++ opf :: rest) t i = ⟨conv tb.cfg (bytes i), 0⟩ := by
    intro i hi
    obtain ⟨pre, op0, post, hsplit, hrecv, hst, hsame⟩ := hall i hi
    cases pre with
    | nil =>
      simp only [List.nil_append, List.cons.injEq] at hsplit
      obtain ⟨rfl, rfl⟩ := hsplit
      exact C07_converges tb h ops opf rest t i (bytes i) hrecv hst hq hsame
    | cons a pre' =>
      simp only [List.cons_append, List.cons.injEq] at hsplit
      obtain ⟨rfl, rfl⟩ := hsplit
      have hq' : ac07_Quiet tb.cfg t ((ops ++ opf :: pre') ++ [op0]) post := by
        have := ac07_quiet_suffix tb.cfg t (ops ++ [opf]) (pre' ++ [op0]) post (by simpa [List.append_assoc] using hq)
        simpa [List.append_assoc] using this
      have := C07_converges tb h (ops ++ opf :: pre') op0 post t i (bytes i) hrecv hst hq' hsame
      simpa [List.append_assoc] using this
  have hr := reach tb h (ops ++ opf :: rest)
  have hlen : ((Obs.ofState (run tb.cfg (ops ++ opf :: rest))).text t).cells.length = ac07_cap t := by
    rw [obs_text_cells]; exact ac07_text_length tb _ hr.2 t
  apply List.ext_getElem
  · simp [hlen]
  · intro i h1 h2
    have hi : i < ac07_cap t := by omega
    have := hcell i hi
    unfold ac07_cell at this
    rw [getD_eq_getElem' _ i h1] at this
    rw [this]
    simp

/-! ## executable forms of the hypotheses (used for the concrete instances below) -/

theorem ac07_quiet_iff_B (cfg : Cfg) (t : Nat) (ops2 : List Op) :
    ∀ ops, ac07_Quiet cfg t ops ops2 ↔ ac07_quietB cfg t (monAfter cfg ops) (run cfg ops) ops2 = true := by
  induction ops2 with
  | nil => intro ops; exact ⟨fun _ => rfl, fun _ => ac07_quiet_nil cfg t ops⟩
  | cons op rest ih =>
    intro ops
    rw [ac07_quiet_cons, ih (ops ++ [op]), monAfter_snoc, run_snoc]
    simp only [ac07_quietB, Bool.and_eq_true, Bool.not_eq_true']

instance (b : Nat) : Decidable (ac07_Storable b) := by unfold ac07_Storable; infer_instance

/-- the bytes that the call `op` presents error-free (block B and data block) to cell `(t, i)` -/
def ac07_efBytes (t i : Nat) (op : Op) : List Nat :=
  match op.group? with
  | some g =>
    if g.eb = 0 then
      ((addressed g).filter (fun a => a.1 = t && a.2.1 = i && a.2.2.2 = 0)).map (fun a => a.2.2.1)
    else []
  | none => []

theorem ac07_efAddr_iff (t i b : Nat) (op : Op) : ac07_EfAddr t i b op ↔ b ∈ ac07_efBytes t i op := by
  unfold ac07_EfAddr ac07_efBytes
  constructor
  · intro ⟨g, hg, heb, hmem⟩
    rw [hg]
    simp only [heb, if_true, List.mem_map, List.mem_filter]
    exact ⟨(t, i, b, 0), ⟨hmem, by simp⟩, rfl⟩
  · intro hm
    cases hg : op.group? with
    | none => rw [hg] at hm; cases hm
    | some g =>
      rw [hg] at hm
      simp only [] at hm
      split at hm
      · rename_i heb
        simp only [List.mem_map, List.mem_filter, Bool.and_eq_true, decide_eq_true_eq] at hm
        obtain ⟨⟨a1, a2, a3, a4⟩, ⟨hmem, ⟨h1, h2⟩, h3⟩, h4⟩ := hm
        simp only at h1 h2 h3 h4
        subst h1; subst h2; subst h3; subst h4
        exact ⟨g, rfl, heb, hmem⟩
      · cases hm

def ac07_sameB (cfg : Cfg) (t i b : Nat) (post : List Op) : Bool :=
  post.all fun op => (ac07_efBytes t i op).all fun b' => !(decide (ac07_Storable b')) || conv cfg b' == conv cfg b

theorem ac07_same_of_B (cfg : Cfg) (t i b : Nat) (post : List Op) (hB : ac07_sameB cfg t i b post = true) :
    ∀ op ∈ post, ∀ b', ac07_EfAddr t i b' op → ac07_Storable b' → conv cfg b' = conv cfg b := by
  intro op hop b' hef hst
  unfold ac07_sameB at hB
  rw [List.all_eq_true] at hB
  have h1 := hB op hop
  rw [List.all_eq_true] at h1
  have h2 := h1 b' ((ac07_efAddr_iff t i b' op).mp hef)
  simpa [hst] using h2

def ac07_hallB (cfg : Cfg) (t : Nat) (bytes : Nat → Nat) (l : List Op) (i : Nat) : Bool :=
  (List.range l.length).any fun k =>
    match l[k]? with
    | some op0 =>
      (ac07_efBytes t i op0).contains (bytes i) && decide (ac07_Storable (bytes i)) &&
        ac07_sameB cfg t i (bytes i) (l.drop (k + 1))
    | none => false

theorem ac07_hall_of_B (cfg : Cfg) (t : Nat) (bytes : Nat → Nat) (l : List Op) (i : Nat)
    (hB : ac07_hallB cfg t bytes l i = true) :
    ∃ pre op0 post, l = pre ++ op0 :: post ∧ ac07_EfAddr t i (bytes i) op0 ∧ ac07_Storable (bytes i) ∧
      ∀ op ∈ post, ∀ b', ac07_EfAddr t i b' op → ac07_Storable b' → conv cfg b' = conv cfg (bytes i) := by
  unfold ac07_hallB at hB
  rw [List.any_eq_true] at hB
  obtain ⟨k, _, hk⟩ := hB
  cases hl : l[k]? with
  | none => rw [hl] at hk; cases hk
  | some op0 =>
    rw [hl] at hk
    simp only [Bool.and_eq_true, decide_eq_true_eq, List.contains_iff_mem] at hk
    obtain ⟨hlt, hget⟩ := List.getElem?_eq_some_iff.mp hl
    refine ⟨l.take k, op0, l.drop (k + 1), ?_, (ac07_efAddr_iff _ _ _ _).mpr hk.1.1, hk.1.2,
      ac07_same_of_B cfg t i _ _ hk.2⟩
    rw [← hget, ← List.drop_eq_getElem_cons hlt, List.take_append_drop]


/-! ## non-vacuity: concrete histories satisfying the hypotheses (closed terms, evaluated by the kernel) -/

/-- a toy configuration (identity charset, ECC table constantly 7) satisfying `EccOk` -/
def ac07_toyCfg : Cfg := ⟨true, fun b => b, fun _ _ => 7⟩
def ac07_toyTabs : Tabs := ⟨ac07_toyCfg, 10⟩
theorem ac07_toy_ok : EccOk ac07_toyTabs := ⟨by decide, fun _ _ => by show (7 : Nat) < 10; omega⟩

/-- RT set-up: progressive on, both thresholds 2 -/
def ac07_rtSetup : List Op := [.setProg .rt true, .setCorr .rt .info 2, .setCorr .rt .data 2]
/-- 2A, flag A, segment 0, "ABCD", block B error 1, block C error 1: levels 4,4,1,1 -/
def ac07_gR0 : Group := ⟨0, 0x2000, 0x4142, 0x4344, 0, 1, 1, 0⟩
/-- 2A, flag A, segment 0, "QRST", block C error-free, block D error 2 (level 5: rejected by progressive) -/
def ac07_gR1 : Group := ⟨0, 0x2000, 0x5152, 0x5354, 0, 0, 0, 2⟩
/-- 2A, flag B, segment 0, error-free: a switch, buffer B is still empty so nothing is discarded -/
def ac07_gR2 : Group := ⟨0, 0x2010, 0x6162, 0x6364, 0, 0, 0, 0⟩
/-- 2A, flag A again, error-free: the switch discards buffer A -/
def ac07_gR3 : Group := ⟨0, 0x2001, 0x7172, 0x7374, 0, 0, 0, 0⟩

/-- (a) `C07_history_rt`: a quiet segment with an accepted improvement, a rejected worse reception, a threshold change,
a switch to the other buffer, and progressive switched off by the last call; levels 4,4,1,1 become 0,0,1,1 -/
example : ac07_Quiet ac07_toyCfg 1 (ac07_rtSetup ++ [.parse ac07_gR0])
      [.parse ac07_gR1, .setCorr .rt .data 0, .parse ac07_gR2, .setProg .rt false] ∧
    ((run ac07_toyCfg (ac07_rtSetup ++ [.parse ac07_gR0])).rt 0).take 5 =
      [⟨0x41, 4⟩, ⟨0x42, 4⟩, ⟨0x43, 1⟩, ⟨0x44, 1⟩, blank] ∧
    ((run ac07_toyCfg ((ac07_rtSetup ++ [.parse ac07_gR0]) ++
      [.parse ac07_gR1, .setCorr .rt .data 0, .parse ac07_gR2, .setProg .rt false])).rt 0).take 5 =
      [⟨0x51, 0⟩, ⟨0x52, 0⟩, ⟨0x43, 1⟩, ⟨0x44, 1⟩, blank] := by
  refine ⟨(ac07_quiet_iff_B _ _ _ _).mpr (by decide +kernel), by decide +kernel, by decide +kernel⟩

/-- … and `ac07_Quiet` is not trivially true: the switch back to flag A discards buffer A -/
example : ¬ ac07_Quiet ac07_toyCfg 1 (ac07_rtSetup ++ [.parse ac07_gR0])
      [.parse ac07_gR1, .parse ac07_gR2, .parse ac07_gR3] := by
  rw [ac07_quiet_iff_B]; decide +kernel

/-- the `keepsProg`-shaped hypotheses of `C07_history_rt_keeps` on the same segment (without the final `setProg`) -/
example : (run ac07_toyCfg (ac07_rtSetup ++ [.parse ac07_gR0])).set.progRt = true ∧
    (∀ op ∈ [Op.parse ac07_gR1, .setCorr .rt .data 0, .parse ac07_gR2], keepsProg .rt op = true) := by
  refine ⟨by decide +kernel, ?_⟩
  intro op hop; simp at hop; rcases hop with rfl | rfl | rfl <;> rfl

/-- (b) `C07_char_replaced_only_by_not_worse`: the three hypotheses hold for cell 0 of RT buffer A when `ac07_gR1`
arrives ('A' at level 4 is replaced by 'Q' at level 0) -/
example : (run ac07_toyCfg (ac07_rtSetup ++ [.parse ac07_gR0])).set.prog (textIdOf 1) = true ∧
    ac07_resets (monAfter ac07_toyCfg (ac07_rtSetup ++ [.parse ac07_gR0]))
      (Obs.ofState (run ac07_toyCfg (ac07_rtSetup ++ [.parse ac07_gR0]))) 1 (.parse ac07_gR1) = false ∧
    (ac07_cell ac07_toyCfg ((ac07_rtSetup ++ [.parse ac07_gR0]) ++ [.parse ac07_gR1]) 1 0).ch ≠
      (ac07_cell ac07_toyCfg (ac07_rtSetup ++ [.parse ac07_gR0]) 1 0).ch := by
  decide +kernel

/-- (c) `C07_error_free_sticky`: cell 0 holds 'Q' at level 0; the error-free "qrst" on flag A, same segment, changes
it (hypotheses hold); a reception of "ABCD" with errors does not -/
def ac07_gR4 : Group := ⟨0, 0x2000, 0x7172, 0x7374, 0, 0, 0, 0⟩
example :
    (run ac07_toyCfg (ac07_rtSetup ++ [.parse ac07_gR0, .parse ac07_gR1])).set.prog (textIdOf 1) = true ∧
    ac07_resets (monAfter ac07_toyCfg (ac07_rtSetup ++ [.parse ac07_gR0, .parse ac07_gR1]))
      (Obs.ofState (run ac07_toyCfg (ac07_rtSetup ++ [.parse ac07_gR0, .parse ac07_gR1]))) 1 (.parse ac07_gR4) = false ∧
    (ac07_cell ac07_toyCfg (ac07_rtSetup ++ [.parse ac07_gR0, .parse ac07_gR1]) 1 0).lvl = 0 ∧
    ac07_cell ac07_toyCfg ((ac07_rtSetup ++ [.parse ac07_gR0, .parse ac07_gR1]) ++ [.parse ac07_gR4]) 1 0 ≠
      ac07_cell ac07_toyCfg (ac07_rtSetup ++ [.parse ac07_gR0, .parse ac07_gR1]) 1 0 ∧
    ac07_cell ac07_toyCfg ((ac07_rtSetup ++ [.parse ac07_gR0, .parse ac07_gR1]) ++ [.parse ac07_gR0]) 1 0 =
      ac07_cell ac07_toyCfg (ac07_rtSetup ++ [.parse ac07_gR0, .parse ac07_gR1]) 1 0 := by
  decide +kernel

/-- (c) `C07_error_free_sticky_history`: hypotheses on a segment with corrected receptions and a threshold change -/
example : ac07_Quiet ac07_toyCfg 1 (ac07_rtSetup ++ [.parse ac07_gR0, .parse ac07_gR1])
      [.parse ac07_gR0, .setCorr .rt .info 1, .parse ac07_gR0, .parse ac07_gR1] ∧
    (ac07_cell ac07_toyCfg (ac07_rtSetup ++ [.parse ac07_gR0, .parse ac07_gR1]) 1 0).lvl = 0 ∧
    (∀ op ∈ [Op.parse ac07_gR0, .setCorr .rt .info 1, .parse ac07_gR0, .parse ac07_gR1], ∀ b,
      ac07_EfAddr 1 0 b op → ac07_Storable b →
      conv ac07_toyCfg b = (ac07_cell ac07_toyCfg (ac07_rtSetup ++ [.parse ac07_gR0, .parse ac07_gR1]) 1 0).ch) := by
  refine ⟨(ac07_quiet_iff_B _ _ _ _).mpr (by decide +kernel), by decide +kernel, ?_⟩
  have e : (ac07_cell ac07_toyCfg (ac07_rtSetup ++ [.parse ac07_gR0, .parse ac07_gR1]) 1 0).ch =
      conv ac07_toyCfg 0x51 := by decide +kernel
  rw [e]
  exact ac07_same_of_B _ _ _ _ _ (by decide +kernel)

/-- (d) `C07_converges`: 2A flag A segment 1 = "ABC\r" error-free (this very call is the first type-2 group), then a
corrected "XYZZ", a threshold change, the error-free group again, and a corrected group once more; cell 4 converges to
'A', cell 7 to the end-of-text marker -/
def ac07_gE : Group := ⟨0, 0x2001, 0x4142, 0x430D, 0, 0, 0, 0⟩
def ac07_gX : Group := ⟨0, 0x2001, 0x5859, 0x5A5A, 0, 1, 1, 1⟩
def ac07_tail : List Op := [.parse ac07_gX, .setCorr .rt .info 1, .parse ac07_gE, .parse ac07_gX]

example : ac07_EfAddr 1 4 0x41 (.parse ac07_gE) ∧ ac07_Storable 0x41 ∧
    ac07_Quiet ac07_toyCfg 1 (ac07_rtSetup ++ [.parse ac07_gE]) ac07_tail ∧
    (∀ op ∈ ac07_tail, ∀ b', ac07_EfAddr 1 4 b' op → ac07_Storable b' → conv ac07_toyCfg b' = conv ac07_toyCfg 0x41) :=
  ⟨(ac07_efAddr_iff _ _ _ _).mpr (by decide +kernel), by decide,
    (ac07_quiet_iff_B _ _ _ _).mpr (by decide +kernel), ac07_same_of_B _ _ _ _ _ (by decide +kernel)⟩

/-- the same for cell 7 (byte 0x0D), this time with `op0` itself being the A/B switch that discards buffer A (which is
allowed: `ac07_resets … = true` for `op0`) -/
def ac07_pre : List Op := ac07_rtSetup ++ [.parse ac07_gR0, .parse ac07_gR2]
example : ac07_EfAddr 1 7 0x0D (.parse ac07_gE) ∧ ac07_Storable 0x0D ∧
    ac07_resets (monAfter ac07_toyCfg ac07_pre) (Obs.ofState (run ac07_toyCfg ac07_pre)) 1 (.parse ac07_gE) = true ∧
    ac07_Quiet ac07_toyCfg 1 (ac07_pre ++ [.parse ac07_gE]) ac07_tail ∧
    (∀ op ∈ ac07_tail, ∀ b', ac07_EfAddr 1 7 b' op → ac07_Storable b' → conv ac07_toyCfg b' = conv ac07_toyCfg 0x0D) ∧
    ac07_cell ac07_toyCfg (ac07_pre ++ .parse ac07_gE :: ac07_tail) 1 7 = ⟨0, 0⟩ ∧
    ac07_cell ac07_toyCfg (ac07_pre ++ .parse ac07_gE :: ac07_tail) 1 0 = blank :=
  ⟨(ac07_efAddr_iff _ _ _ _).mpr (by decide +kernel), by decide, by decide +kernel,
    (ac07_quiet_iff_B _ _ _ _).mpr (by decide +kernel), ac07_same_of_B _ _ _ _ _ (by decide +kernel),
    by decide +kernel, by decide +kernel⟩

/-- (d) `C07_converges_string`: PS "ABCDEFG\r" from four error-free 0A groups with corrected junk in between -/
def ac07_psSetup : List Op := [.setProg .ps true, .setCorr .ps .info 2, .setCorr .ps .data 2]
def ac07_p (seg d eb ed : Nat) : Op := .parse ⟨0, seg, 0, d, 0, eb, 0, ed⟩
def ac07_psRest : List Op :=
  [ac07_p 1 0x4344 0 0, ac07_p 0 0x5858 1 1, ac07_p 3 0x5858 1 0, ac07_p 2 0x4546 0 0, ac07_p 3 0x470D 0 0,
   ac07_p 1 0x5858 0 2, ac07_p 0 0x4142 0 0]
def ac07_psBytes (i : Nat) : Nat := [0x41, 0x42, 0x43, 0x44, 0x45, 0x46, 0x47, 0x0D].getD i 0

example : ac07_Quiet ac07_toyCfg 0 (ac07_psSetup ++ [ac07_p 0 0x4142 0 0]) ac07_psRest ∧
    (∀ i, i < ac07_cap 0 → ∃ pre op0 post, ac07_p 0 0x4142 0 0 :: ac07_psRest = pre ++ op0 :: post ∧
      ac07_EfAddr 0 i (ac07_psBytes i) op0 ∧ ac07_Storable (ac07_psBytes i) ∧
      ∀ op ∈ post, ∀ b', ac07_EfAddr 0 i b' op → ac07_Storable b' →
        conv ac07_toyCfg b' = conv ac07_toyCfg (ac07_psBytes i)) ∧
    (run ac07_toyCfg (ac07_psSetup ++ ac07_p 0 0x4142 0 0 :: ac07_psRest)).ps =
      [⟨0x41, 0⟩, ⟨0x42, 0⟩, ⟨0x43, 0⟩, ⟨0x44, 0⟩, ⟨0x45, 0⟩, ⟨0x46, 0⟩, ⟨0x47, 0⟩, ⟨0, 0⟩] := by
  refine ⟨(ac07_quiet_iff_B _ _ _ _).mpr (by decide +kernel), ?_, by decide +kernel⟩
  intro i hi
  apply ac07_hall_of_B
  revert i
  decide +kernel


end RDS
