import RdsProofs.LinkProofs
import RdsProofs.WFProofs
/-!
# RdsProofs.Reach — both invariants hold in every reachable state

`reach`: after any op list from initialisation, the abstract machine `monAfter` is linked
to the model state `run`, and the state is well-formed. Every history theorem is this lemma
plus a one-step lemma.
-/
namespace RDS

theorem reach_from (tb : Tabs) (h : EccOk tb) (ops : List Op) :
    ∀ (m : Mon) (s : State), Link m s → WF tb s →
      Link (ops.foldl (Mon.step tb.cfg) m) (runFrom tb.cfg s ops) ∧ WF tb (runFrom tb.cfg s ops) := by
  induction ops with
  | nil => intro m s hl hw; exact ⟨hl, hw⟩
  | cons op ops ih =>
    intro m s hl hw
    have hl' := link_step tb m s op hl hw
    have hw' := wf_step tb h s op hw
    exact ih _ _ hl' hw'

theorem reach (tb : Tabs) (h : EccOk tb) (ops : List Op) :
    Link (monAfter tb.cfg ops) (run tb.cfg ops) ∧ WF tb (run tb.cfg ops) :=
  reach_from tb h ops Mon.init initState link_init (wf_init tb h)

theorem monAfter_snoc (cfg : Cfg) (ops : List Op) (op : Op) :
    monAfter cfg (ops ++ [op]) = (monAfter cfg ops).step cfg op := by
  simp [monAfter, List.foldl_append]

theorem run_snoc (cfg : Cfg) (ops : List Op) (op : Op) :
    run cfg (ops ++ [op]) = (step cfg (run cfg ops) op).1 := by
  simp [run, runFrom, List.foldl_append]

end RDS
