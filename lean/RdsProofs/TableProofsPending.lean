import RdsProofs.TableProofs
/-!
# RdsProofs.TableProofsPending — table theorems that are FALSE for the library at its pinned commit

This file does **not** check against the `Generated.lean` of the pinned tree, and is therefore not
imported anywhere. Each theorem is the full statement whose `…_deviations` / `…_pinned_defects` /
`…_except` forms are proved in `RdsProofs/TableProofs.lean`:

| theorem            | fails because of                                                        |
|--------------------|-------------------------------------------------------------------------|
| `C02_charset`      | byte 0x8D ↦ U+03B2 (Greek β); IEC 62106 table E.1: U+00DF (ß)           |
| `C18_country_iso`  | 164 El Salvador ↦ "SN" (correct "SV"); 166 Turks and Caicos ↦ "TB" ("TC") |
| `C18_iso_distinct` | (125 Senegal, 164 El Salvador) both "SN"                                |

Once the library is repaired these check as they are (tested against a patched copy of
`Generated.lean`); the `…_deviations`, `…_pinned_defects` and `…_except` theorems of
`TableProofs.lean` then stop checking and are to be deleted, and these move there.
-/

set_option Elab.async false

namespace RDS
open RDS.TableCheck

/-! ## C02 -/

theorem tbl_g0_table : Generated.g0 = g0Expected := eq_of_beq (by decide +kernel)

/-- every stored byte ≥ 0x20 is mapped through IEC 62106 code table E.1 -/
theorem C02_charset : ∀ b, 0x20 ≤ b → b < 256 →
    Generated.g0.getD b 0 = Reference.g0.getD (b - 0x20) 0 := by
  intro b h20 hb
  rw [tbl_getD_of_eq_map_range tbl_g0_table b hb 0]
  have h0D : (b == 0x0D) = false := by simp; omega
  have hlt : ¬ b < 0x20 := by omega
  simp [Reference.g0Value, h0D, hlt]

/-! ## C18 -/

theorem tbl_country_iso : Generated.countryIso = isoExpected := eq_of_beq (by decide +kernel)

/-- the ISO lookup, all 256 arguments: "??" out of range; in range the (name, code) pair returned
by the two lookups for the same argument is a row of `Reference.iso3166` -/
theorem C18_country_iso : ∀ a, a < 256 →
    if 0 < a ∧ a < Generated.countryCount then
      ∃ n c, Generated.countryName.getD a none = some n ∧ Generated.countryIso.getD a none = some c ∧
        (n, c) ∈ Reference.iso3166
    else Generated.countryIso.getD a none = some "??" := by
  intro a ha
  have hiso : Generated.countryIso.getD a none = Reference.expectedIso a :=
    tbl_getD_of_eq_map_range tbl_country_iso a ha none
  split
  · next hr =>
    exact ⟨_, _, (C18_country_name a ha).1, hiso, tbl_row_mem_iso3166 a hr.1 hr.2⟩
  · next hr =>
    rw [hiso]
    by_cases h0 : a = 0
    · subst h0; rfl
    · have : Reference.countries.length ≤ a := by
        rw [tbl_countries_length]
        have : Generated.countryCount = 221 := rfl
        omega
      simp [Reference.expectedIso, Reference.countryRow, List.getD_eq_getElem?_getD,
        List.getElem?_eq_none this]

theorem tbl_iso_no_clashes : isoClashes Generated.countryIso = [] := eq_of_beq (by decide +kernel)

/-- two different in-range arguments with the same ISO code other than "--" name the same country
(only the eight "Australia …" entries share a code) -/
theorem C18_iso_distinct : ∀ i j, 0 < i → i < j → j < Generated.countryCount →
    ∀ s, Generated.countryIso.getD i none = some s → Generated.countryIso.getD j none = some s →
      s ≠ "--" → Reference.sameCountry i j = true := by
  intro i j h0 hij hj s hi hjs hne
  exact tbl_iso_distinct_of_clashes tbl_iso_no_clashes i j h0 hij hj s hi hjs hne (by simp)

#print axioms C02_charset
#print axioms C18_country_iso
#print axioms C18_iso_distinct

end RDS
