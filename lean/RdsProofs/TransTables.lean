import RdsProofs.TransAbs
import RdsProofs.TransGroupsBase
import RdsModel.Generated
/-!
# RdsProofs.TransTables — the tables of the C *source text* equal the tables read out of the *compiled* library

`cfgC` takes its charset from the initializer of `charset[]` in `string.c` and its ECC map from the four LUT initializers
of `ecc.c`, as translated by `tools/c2lean.py`; `Generated.cfg` takes both from the behaviour of the compiled library
(extraction T1). Both are regenerated on every run; these kernel-checked equalities tie the two ties together.
-/
namespace RDS.C
open RDS

set_option maxRecDepth 100000 in
theorem tt_charset_table :
    (List.range 224).map (fun i => (c_rdsparser_string_convert_charset.getD i 32).toNat) =
    (List.range 224).map (fun i => Generated.g0.getD (i + 32) 32) := by decide +kernel

/-- source charset = compiled charset on every byte 0x20..0xFF -/
theorem cfgC_g0_generated (u : Bool) (b : Nat) (h0 : 0x20 ≤ b) (h1 : b < 256) :
    (cfgC u).g0 b = (Generated.cfg u).g0 b := by
  have h := congrArg (fun l => l.getD (b - 32) 0) tt_charset_table
  simp only [List.getD_eq_getElem?_getD, List.getElem?_map, List.getElem?_range (show b - 32 < 224 by omega),
    Option.map_some, Option.getD_some] at h
  have e : b - 32 + 32 = b := by omega
  rw [e] at h
  simpa [cfgC, Generated.cfg, List.getD_eq_getElem?_getD] using h

set_option maxRecDepth 100000 in
theorem tt_ecc_table :
    (List.range 16).map (fun (nib : Nat) => (List.range 256).map (fun (e : Nat) => (c_rdsparser_ecc_lookup ((nib : Int) * 4096) (e : Int)).toNat)) =
    (List.range 16).map (fun nib => Generated.eccCountry.getD (nib + 1) []) := by decide +kernel

/-- source ECC tables = compiled ECC map for every PI nibble and every ECC byte -/
theorem cfgC_ecc_generated (u : Bool) (nib e : Nat) (hn : nib < 16) (he : e < 256) :
    (cfgC u).ecc nib e = (Generated.cfg u).ecc nib e := by
  have h := congrArg (fun l => (l.getD nib []).getD e 0) tt_ecc_table
  simp only [List.getD_eq_getElem?_getD, List.getElem?_map, List.getElem?_range hn, List.getElem?_range he,
    Option.map_some, Option.getD_some] at h
  simpa [cfgC, Generated.cfg, List.getD_eq_getElem?_getD] using h

/-! ## every value the source's ECC look-up can return is a valid country enumerator (`< countryCount`, not just `< 256`) -/

theorem tt_tab_range (B : Int) (hB : 0 < B) (T : List (List Int)) (hT : ∀ row ∈ T, ∀ x ∈ row, 0 ≤ x ∧ x < B) (i j : Int) :
    0 ≤ getI (getL T i) j ∧ getI (getL T i) j < B := by
  unfold getI getL
  simp only [List.getD_eq_getElem?_getD]
  cases h1 : T[i.toNat]? with
  | none => simp; omega
  | some row =>
    have hrow := hT row (List.mem_of_getElem? h1)
    simp only [Option.getD_some]
    cases h2 : row[j.toNat]? with
    | none => simp; omega
    | some x => simpa using hrow x (List.mem_of_getElem? h2)

theorem tt_tabA : ∀ row ∈ c_rdsparser_ecc_a0_a6_lut, ∀ x ∈ row, 0 ≤ x ∧ x < (Generated.countryCount : Int) := by decide
theorem tt_tabD : ∀ row ∈ c_rdsparser_ecc_d0_d4_lut, ∀ x ∈ row, 0 ≤ x ∧ x < (Generated.countryCount : Int) := by decide
theorem tt_tabE : ∀ row ∈ c_rdsparser_ecc_e0_e5_lut, ∀ x ∈ row, 0 ≤ x ∧ x < (Generated.countryCount : Int) := by decide
theorem tt_tabF : ∀ row ∈ c_rdsparser_ecc_f0_f4_lut, ∀ x ∈ row, 0 ≤ x ∧ x < (Generated.countryCount : Int) := by decide

theorem tt_countryCount_pos : (0 : Int) < (Generated.countryCount : Int) := by decide

/-- for EVERY argument pair (not only the API's ranges) the source's look-up returns a valid enumerator -/
theorem tt_ecc_range (pi ecc : Int) :
    0 ≤ c_rdsparser_ecc_lookup pi ecc ∧ c_rdsparser_ecc_lookup pi ecc < (Generated.countryCount : Int) := by
  have hB := tt_countryCount_pos
  rw [tg_ecc_shape]
  split
  · unfold tg_eccCore
    simp only []
    split
    · exact tt_tab_range _ hB _ tt_tabA _ _
    · split
      · exact tt_tab_range _ hB _ tt_tabD _ _
      · split
        · exact tt_tab_range _ hB _ tt_tabE _ _
        · split
          · exact tt_tab_range _ hB _ tt_tabF _ _
          · omega
  · omega

#print axioms tt_ecc_range
#print axioms cfgC_g0_generated
#print axioms cfgC_ecc_generated
end RDS.C
