import RdsProofs.TransAbs
import RdsModel.Generated
/-!
# RdsProofs.TransTables — the tables of the C *source text* equal the tables read out of the *compiled* library

`cfgC` takes its charset from the initializer of `charset[]` in `string.c` and its ECC map from the four LUT initializers
of `ecc.c`, as translated by `tools/c2lean.py`; `Generated.cfg` takes both from the behaviour of the compiled library
(extraction T1). Both are regenerated on every run; these kernel-checked equalities tie the two ties together.
-/
namespace RDS.C
open RDS

set_option maxRecDepth 100000 in
theorem tt_charset_table :
    (List.range 224).map (fun i => (c_rdsparser_string_convert_charset.getD i 32).toNat) =
    (List.range 224).map (fun i => Generated.g0.getD (i + 32) 32) := by decide +kernel

/-- source charset = compiled charset on every byte 0x20..0xFF -/
theorem cfgC_g0_generated (u : Bool) (b : Nat) (h0 : 0x20 ≤ b) (h1 : b < 256) :
    (cfgC u).g0 b = (Generated.cfg u).g0 b := by
  have h := congrArg (fun l => l.getD (b - 32) 0) tt_charset_table
  simp only [List.getD_eq_getElem?_getD, List.getElem?_map, List.getElem?_range (show b - 32 < 224 by omega),
    Option.map_some, Option.getD_some] at h
  have e : b - 32 + 32 = b := by omega
  rw [e] at h
  simpa [cfgC, Generated.cfg, List.getD_eq_getElem?_getD] using h

set_option maxRecDepth 100000 in
theorem tt_ecc_table :
    (List.range 16).map (fun (nib : Nat) => (List.range 256).map (fun (e : Nat) => (c_rdsparser_ecc_lookup ((nib : Int) * 4096) (e : Int)).toNat)) =
    (List.range 16).map (fun nib => Generated.eccCountry.getD (nib + 1) []) := by decide +kernel

/-- source ECC tables = compiled ECC map for every PI nibble and every ECC byte -/
theorem cfgC_ecc_generated (u : Bool) (nib e : Nat) (hn : nib < 16) (he : e < 256) :
    (cfgC u).ecc nib e = (Generated.cfg u).ecc nib e := by
  have h := congrArg (fun l => (l.getD nib []).getD e 0) tt_ecc_table
  simp only [List.getD_eq_getElem?_getD, List.getElem?_map, List.getElem?_range hn, List.getElem?_range he,
    Option.map_some, Option.getD_some] at h
  simpa [cfgC, Generated.cfg, List.getD_eq_getElem?_getD] using h

#print axioms cfgC_g0_generated
#print axioms cfgC_ecc_generated
end RDS.C
