import RdsProofs.TableBase
/-!
# RdsProofs.TableC18 — kernel-checked theorems about the PTY and country lookups (C18)

`Generated.*` is read out of the compiled library on every run; `Reference.*` is the hand-written
oracle. Every theorem rests on closed, finite `Bool` facts evaluated by the kernel (`decide +kernel`)
over the *whole* table (one pass: indexing a 256-entry list per cell is quadratic in the kernel), then
lifted to `∀` by the `tbl_…` lemmas of `RdsProofs.TableBase`.
-/

-- the kernel evaluations are memory-bound; checking them concurrently is slower than in sequence
set_option Elab.async false

namespace RDS
open RDS.TableCheck

/-! ## C18 — PTY lookups -/

theorem tbl_pty_table (t : Reference.PtyTbl) (rbds : Bool) :
    genPty t rbds = ptyExpectedList t rbds := by
  cases t <;> cases rbds <;> exact eq_of_beq (by decide +kernel)

/-- all six PTY lookups, all 256 arguments (index = argument mod 256): the reference entry for
0..31, "Unknown" otherwise, never NULL -/
theorem C18_pty (t : Reference.PtyTbl) (rbds : Bool) : ∀ a, a < 256 →
    (genPty t rbds).getD a none =
      some (if a < 32 then (Reference.pty t rbds).getD a "!!" else "Unknown") := by
  intro a ha
  rw [tbl_getD_of_eq_map_range (tbl_pty_table t rbds) a ha]
  rfl

theorem C18_pty_name_rds : ∀ a, a < 256 → Generated.ptyNameRds.getD a none =
    some (if a < 32 then Reference.ptyRdsName.getD a "!!" else "Unknown") := C18_pty .name false
theorem C18_pty_short_rds : ∀ a, a < 256 → Generated.ptyShortRds.getD a none =
    some (if a < 32 then Reference.ptyRdsShort.getD a "!!" else "Unknown") := C18_pty .short false
theorem C18_pty_long_rds : ∀ a, a < 256 → Generated.ptyLongRds.getD a none =
    some (if a < 32 then Reference.ptyRdsLong.getD a "!!" else "Unknown") := C18_pty .long false
theorem C18_pty_name_rbds : ∀ a, a < 256 → Generated.ptyNameRbds.getD a none =
    some (if a < 32 then Reference.ptyRbdsName.getD a "!!" else "Unknown") := C18_pty .name true
theorem C18_pty_short_rbds : ∀ a, a < 256 → Generated.ptyShortRbds.getD a none =
    some (if a < 32 then Reference.ptyRbdsShort.getD a "!!" else "Unknown") := C18_pty .short true
theorem C18_pty_long_rbds : ∀ a, a < 256 → Generated.ptyLongRbds.getD a none =
    some (if a < 32 then Reference.ptyRbdsLong.getD a "!!" else "Unknown") := C18_pty .long true

/-- short names fit 8 characters and long names 16, RDS and RBDS, for every argument (including
the "Unknown" answers) -/
theorem C18_pty_width (rbds : Bool) : ∀ a s,
    ((genPty .short rbds).getD a none = some s → s.length ≤ 8) ∧
    ((genPty .long rbds).getD a none = some s → s.length ≤ 16) := by
  intro a s
  have h8 : (genPty .short rbds).all (widthOk 8) = true := by
    cases rbds <;> decide +kernel
  have h16 : (genPty .long rbds).all (widthOk 16) = true := by
    cases rbds <;> decide +kernel
  constructor
  · intro hs
    rcases tbl_getD_mem_or_default (genPty .short rbds) a none with hm | hm
    · have := List.all_eq_true.mp h8 _ hm
      rw [hs] at this; simpa [widthOk] using this
    · rw [hs] at hm; cases hm
  · intro hs
    rcases tbl_getD_mem_or_default (genPty .long rbds) a none with hm | hm
    · have := List.all_eq_true.mp h16 _ hm
      rw [hs] at this; simpa [widthOk] using this
    · rw [hs] at hm; cases hm


/-! ## C18 — country lookups -/

theorem tbl_country_names : Generated.countryName = namesExpected := eq_of_beq (by decide +kernel)

/-- the name lookup, all 256 arguments: the name of the enumerator for 1..countryCount−1,
"Unknown" for 0 and for ≥ countryCount; never NULL -/
theorem C18_country_name : ∀ a, a < 256 →
    Generated.countryName.getD a none = some (Reference.countryRow a).2.1 ∧
    ((a = 0 ∨ Generated.countryCount ≤ a) → Generated.countryName.getD a none = some "Unknown") := by
  intro a ha
  have h := tbl_getD_of_eq_map_range tbl_country_names a ha none
  refine ⟨h, ?_⟩
  intro hout
  rw [h]
  rcases hout with h0 | hge
  · subst h0; rfl
  · have : Reference.countries.length ≤ a := by
      rw [tbl_countries_length]; exact hge
    simp [Reference.expectedName, Reference.countryRow, List.getD_eq_getElem?_getD,
      List.getElem?_eq_none this]

/-- a row of the reference with a proper enumerator is an entry of `Reference.iso3166` -/
theorem tbl_row_mem_iso3166 (a : Nat) (h0 : 0 < a) (hc : a < Generated.countryCount) :
    (Reference.countryRow a).2 ∈ Reference.iso3166 := by
  have hlen : a < Reference.countries.length := by rw [tbl_countries_length]; exact hc
  have h1 : (Reference.countries.drop 1)[a - 1]? = some (Reference.countryRow a) := by
    rw [List.getElem?_drop, show 1 + (a - 1) = a by omega]
    simp [Reference.countryRow, List.getD_eq_getElem?_getD, List.getElem?_eq_getElem hlen]
  exact List.mem_map.mpr ⟨_, List.mem_of_getElem? h1, rfl⟩

/-- every in-range ISO result is two capital letters or the "--" placeholder -/
theorem C18_iso_two_letters : ∀ a, 0 < a → a < Generated.countryCount →
    ∃ s, Generated.countryIso.getD a none = some s ∧ Reference.isoShape s = true := by
  intro a h0 hc
  have hcc : Generated.countryCount = 221 := rfl
  have h := tbl_zipIdx_all (l := Generated.countryIso)
    (p := fun i o => i == 0 || decide (Generated.countryCount ≤ i) || shapeOk o)
    (by decide +kernel) a none (by rw [tbl_generated_lengths.2.2.2.1]; omega)
  have h1 : (a == 0) = false := by simp; omega
  have h2 : ¬ Generated.countryCount ≤ a := by omega
  simp only [h1, h2, decide_false, Bool.false_or] at h
  cases hs : Generated.countryIso.getD a none with
  | none => rw [hs] at h; cases h
  | some s => rw [hs] at h; exact ⟨s, rfl, h⟩

/-! ### distinct countries never share a code -/

theorem tbl_clashesWith_complete (i c : Nat) (hc : c ≠ 0) :
    ∀ (ds : List Nat) (k n : Nat), ds[n]? = some c → Reference.sameCountry i (k + n) = false →
      (i, k + n) ∈ clashesWith i c ds k
  | [], _, _, h, _ => by simp at h
  | d :: ds, k, 0, h, hs => by
    have hd : d = c := by simpa using h
    subst hd
    have hs' : Reference.sameCountry i k = false := by simpa using hs
    simp [clashesWith, hc, hs']
  | d :: ds, k, n + 1, h, hs => by
    have ih := tbl_clashesWith_complete i c hc ds (k + 1) n (by simpa using h)
      (by rwa [show k + 1 + n = k + (n + 1) by omega])
    rw [show k + (n + 1) = k + 1 + n by omega]
    unfold clashesWith
    split
    · exact List.mem_cons_of_mem _ ih
    · exact ih

theorem tbl_clashes_complete (c : Nat) (hc : c ≠ 0) :
    ∀ (cs : List Nat) (b m n : Nat), m < n → cs[m]? = some c → cs[n]? = some c →
      Reference.sameCountry (b + m) (b + n) = false → (b + m, b + n) ∈ clashes cs b
  | [], _, _, _, _, h, _, _ => by simp at h
  | _ :: _, _, _, 0, hmn, _, _, _ => by omega
  | x :: cs, b, 0, n + 1, _, hm, hn, hs => by
    have hx : x = c := by simpa using hm
    subst hx
    have h := tbl_clashesWith_complete b x hc cs (b + 1) n (by simpa using hn)
      (by rwa [show b + 1 + n = b + (n + 1) by omega, ← Nat.add_zero b])
    rw [show b + (n + 1) = b + 1 + n by omega, Nat.add_zero]
    unfold clashes
    exact List.mem_append_left _ h
  | x :: cs, b, m + 1, n + 1, hmn, hm, hn, hs => by
    have ih := tbl_clashes_complete c hc cs (b + 1) m n (by omega) (by simpa using hm)
      (by simpa using hn)
      (by rwa [show b + 1 + m = b + (m + 1) by omega, show b + 1 + n = b + (n + 1) by omega])
    rw [show b + (m + 1) = b + 1 + m by omega, show b + (n + 1) = b + 1 + n by omega]
    unfold clashes
    exact List.mem_append_right _ ih

/-- what a proved clash list says about the ISO lookup: two different in-range arguments with the
same proper code (not "--") name the same country, unless the pair is in the list -/
theorem tbl_iso_distinct_of_clashes {D : List (Nat × Nat)}
    (h : isoClashes Generated.countryIso = D) :
    ∀ i j, 0 < i → i < j → j < Generated.countryCount →
      ∀ s, Generated.countryIso.getD i none = some s → Generated.countryIso.getD j none = some s →
        s ≠ "--" → (i, j) ∉ D → Reference.sameCountry i j = true := by
  intro i j h0 hij hj s hi hjs hne hD
  have hcc : Generated.countryCount = 221 := rfl
  have hlen := tbl_generated_lengths.2.2.2.1
  -- the code of `s` is a proper one
  obtain ⟨s', hs', hshape⟩ := C18_iso_two_letters i h0 (by omega)
  rw [hi] at hs'
  cases hs'
  have hcode : Reference.isoCode s ≠ 0 := by
    simp only [Reference.isoShape, Bool.or_eq_true, bne_iff_ne, beq_iff_eq] at hshape
    rcases hshape with h1 | h1
    · exact h1
    · exact absurd h1 hne
  -- position of argument `a` in the list of codes
  have hidx : ∀ a, 0 < a → a < Generated.countryCount → Generated.countryIso.getD a none = some s →
      (((Generated.countryIso.take Generated.countryCount).drop 1).map codeOf)[a - 1]? =
        some (Reference.isoCode s) := by
    intro a ha0 hac hsa
    have hal : a < Generated.countryIso.length := by omega
    have hget : Generated.countryIso[a]? = some (some s) := by
      have := hsa
      rw [List.getD_eq_getElem?_getD, List.getElem?_eq_getElem hal] at this
      rw [List.getElem?_eq_getElem hal]
      exact congrArg some (by simpa using this)
    rw [List.getElem?_map, List.getElem?_drop, show 1 + (a - 1) = a by omega,
      List.getElem?_take_of_lt hac, hget]
    rfl
  cases hsame : Reference.sameCountry i j with
  | true => rfl
  | false =>
    exfalso
    have hmem := tbl_clashes_complete (Reference.isoCode s) hcode _ 1 (i - 1) (j - 1) (by omega)
      (hidx i h0 (by omega) hi) (hidx j (by omega) hj hjs)
      (by rwa [show 1 + (i - 1) = i by omega, show 1 + (j - 1) = j by omega])
    rw [show 1 + (i - 1) = i by omega, show 1 + (j - 1) = j by omega] at hmem
    exact hD (h ▸ hmem)

/-- the reference ISO codes themselves are shared only inside an alias class (the eight
"Australia …" entries) -/
theorem tbl_reference_iso_distinct :
    clashes ((Reference.countries.drop 1).map (fun r => Reference.isoCode r.2.2)) 1 = [] :=
  eq_of_beq (by decide +kernel)


theorem tbl_country_iso : Generated.countryIso = isoExpected := eq_of_beq (by decide +kernel)

/-- the ISO lookup, all 256 arguments: "??" out of range; in range the (name, code) pair returned
by the two lookups for the same argument is a row of `Reference.iso3166` -/
theorem C18_country_iso : ∀ a, a < 256 →
    if 0 < a ∧ a < Generated.countryCount then
      ∃ n c, Generated.countryName.getD a none = some n ∧ Generated.countryIso.getD a none = some c ∧
        (n, c) ∈ Reference.iso3166
    else Generated.countryIso.getD a none = some "??" := by
  intro a ha
  have hiso : Generated.countryIso.getD a none = Reference.expectedIso a :=
    tbl_getD_of_eq_map_range tbl_country_iso a ha none
  split
  · next hr =>
    exact ⟨_, _, (C18_country_name a ha).1, hiso, tbl_row_mem_iso3166 a hr.1 hr.2⟩
  · next hr =>
    rw [hiso]
    by_cases h0 : a = 0
    · subst h0; rfl
    · have : Reference.countries.length ≤ a := by
        rw [tbl_countries_length]
        have : Generated.countryCount = 221 := rfl
        omega
      simp [Reference.expectedIso, Reference.countryRow, List.getD_eq_getElem?_getD,
        List.getElem?_eq_none this]


theorem tbl_iso_no_clashes : isoClashes Generated.countryIso = [] := eq_of_beq (by decide +kernel)

/-- two different in-range arguments with the same ISO code other than "--" name the same country
(only the eight "Australia …" entries share a code) -/
theorem C18_iso_distinct : ∀ i j, 0 < i → i < j → j < Generated.countryCount →
    ∀ s, Generated.countryIso.getD i none = some s → Generated.countryIso.getD j none = some s →
      s ≠ "--" → Reference.sameCountry i j = true := by
  intro i j h0 hij hj s hi hjs hne
  exact tbl_iso_distinct_of_clashes tbl_iso_no_clashes i j h0 hij hj s hi hjs hne (by simp)



#print axioms C18_pty
#print axioms C18_pty_width
#print axioms C18_country_name
#print axioms C18_country_iso
#print axioms C18_iso_two_letters
#print axioms C18_iso_distinct
#print axioms tbl_reference_iso_distinct

end RDS
