import RdsModel
import RdsSpec.Monitors
import RdsProofs.Frame
/-!
# RdsProofs.CellsSingle — `updateSingle` / `parserUpdate` as the closed form `cellSpec`
-/
namespace RDS

theorem calcError_eq (ei ed : Nat) :
    calcError ei ed = if (ei = 0 && ed = 0) then 0 else 2 * ei + 3 * ed - 1 := by
  unfold calcError
  by_cases h : ei = 0 ∧ ed = 0
  · obtain ⟨h1, h2⟩ := h; subst h1; subst h2; simp
  · have h' : ¬ (2 * ei + 3 * ed = 0) := by omega
    have h2 : (decide (ei = 0) && decide (ed = 0)) = false := by
      simp only [Bool.and_eq_false_iff, decide_eq_false_iff_not]; omega
    rw [if_neg h', h2]; simp

theorem set_getD_self (t : Text) (pos : Nat) : t.set pos (t.getD pos blank) = t := by
  apply List.ext_getElem (by simp)
  intro i h1 h2
  rw [List.getElem_set]
  split
  · rename_i h; subst h
    rw [List.getD_eq_getElem?_getD, List.getElem?_eq_getElem h2]; rfl
  · rfl

/-- one byte through `updateSingle`, as a closed form (C06) -/
theorem updateSingle_cellSpec (cfg : Cfg) (t : Text) (b ei ed pos : Nat) (prog : Bool) (info data : Nat)
    (hp : pos < t.length) (hi : ei ≤ info) (hd : ed ≤ data) :
    (updateSingle cfg t b ei ed pos prog).1 =
      t.set pos (cellSpec cfg info data prog (t.getD pos blank) b ei ed) := by
  have hget : t[pos]? = some t[pos] := List.getElem?_eq_getElem hp
  have hgd : t.getD pos blank = t[pos] := by
    rw [List.getD_eq_getElem?_getD, hget]; rfl
  have hself : t.set pos t[pos] = t := by rw [← hgd]; exact set_getD_self t pos
  unfold updateSingle cellSpec
  rw [hget, hgd, ← calcError_eq]
  generalize calcError ei ed = err
  generalize t[pos] = cell at hself ⊢
  simp only [hi, hd, decide_true, Bool.true_and]
  by_cases h1 : (prog && decide (cell.lvl < err)) = true
  · rw [if_pos h1]
    have : (!prog || decide (err ≤ cell.lvl)) = false := by
      cases prog <;> simp_all <;> omega
    simp [this, hself]
  rw [if_neg h1]
  have h1' : (!prog || decide (err ≤ cell.lvl)) = true := by
    cases prog <;> simp_all <;> omega
  rw [h1']
  by_cases h2 : (b = 0x0D && (ei != 0 || ed != 0)) = true
  · rw [if_pos h2]
    have : (b != 0x0D || (decide (ei = 0) && decide (ed = 0))) = false := by
      simp_all; omega
    simp [this, hself]
  rw [if_neg h2]
  have h2' : (b != 0x0D || (decide (ei = 0) && decide (ed = 0))) = true := by
    simp_all; omega
  rw [h2']
  by_cases h3 : (b != 0x0D && decide (b < 0x20)) = true
  · rw [if_pos h3]
    have : (decide (b = 0x0D) || decide (0x20 ≤ b)) = false := by
      simp_all
    simp [this, hself]
  rw [if_neg h3]
  have h3' : (decide (b = 0x0D) || decide (0x20 ≤ b)) = true := by
    simp_all; omega
  rw [h3']
  by_cases h4 : (decide (0x7F ≤ b) && (ei != 0 || ed != 0)) = true
  · rw [if_pos h4]
    have : (decide (b < 0x7F) || (decide (ei = 0) && decide (ed = 0))) = false := by
      simp_all; omega
    simp [this, hself]
  rw [if_neg h4]
  have h4' : (decide (b < 0x7F) || (decide (ei = 0) && decide (ed = 0))) = true := by
    simp_all; omega
  rw [h4']
  by_cases h5 : (decide (cell.ch = conv cfg b) && decide (cell.lvl ≤ err)) = true
  · rw [if_pos h5]
    have : (!(decide (conv cfg b = cell.ch) && decide (cell.lvl ≤ err))) = false := by
      simp_all
    simp [this, hself]
  rw [if_neg h5]
  have h5' : (!(decide (conv cfg b = cell.ch) && decide (cell.lvl ≤ err))) = true := by
    simp_all
    by_cases hc : conv cfg b = cell.ch
    · exact Or.inr (h5 hc.symm)
    · exact Or.inl hc
  simp [h5']

/-- rejected by the threshold gate: the closed form keeps the old cell -/
theorem cellSpec_gate_reject (cfg : Cfg) (info data : Nat) (prog : Bool) (old : Cell) (b ei ed : Nat)
    (h : ¬ (ei ≤ info ∧ ed ≤ data)) : cellSpec cfg info data prog old b ei ed = old := by
  unfold cellSpec
  have : (decide (ei ≤ info) && decide (ed ≤ data)) = false := by
    simp only [Bool.and_eq_false_iff, decide_eq_false_iff_not]; omega
  simp [this]

/-- C07 core: with progressive correction the level never increases -/
theorem cellSpec_lvl_le (cfg : Cfg) (info data : Nat) (old : Cell) (b ei ed : Nat) :
    (cellSpec cfg info data true old b ei ed).lvl ≤ old.lvl := by
  unfold cellSpec
  simp only []
  generalize (if (decide (ei = 0) && decide (ed = 0)) = true then 0 else 2 * ei + 3 * ed - 1) = lvl
  split
  · rename_i h
    simp only [Bool.and_eq_true, Bool.not_true, Bool.false_or, decide_eq_true_eq] at h
    exact h.1.1.1.1.2
  · exact Nat.le_refl _

theorem text_getD_set_ne (t : Text) (i j : Nat) (c : Cell) (h : i ≠ j) :
    (t.set i c).getD j blank = t.getD j blank := by
  simp [List.getD_eq_getElem?_getD, h]

theorem text_getD_set_eq (t : Text) (i : Nat) (c : Cell) (h : i < t.length) :
    (t.set i c).getD i blank = c := by
  simp [List.getD_eq_getElem?_getD, h]

@[simp] theorem updateSingle_length (cfg : Cfg) (t : Text) (b ei ed pos : Nat) (prog : Bool) :
    (updateSingle cfg t b ei ed pos prog).1.length = t.length := by
  unfold updateSingle
  (repeat' split) <;> simp <;> (repeat' split) <;> simp

@[simp] theorem parserUpdate_length (cfg : Cfg) (set : Settings) (t : Text) (id : TextId) (w eb ex pos : Nat) :
    (parserUpdate cfg set t id w eb ex pos).1.length = t.length := by
  unfold parserUpdate updateString
  split <;> simp

/-- both bytes of a block through the gate and `updateString`, as a closed form -/
theorem parserUpdate_cellSpec (cfg : Cfg) (set : Settings) (t : Text) (id : TextId) (w eb ex pos : Nat)
    (hp : pos + 1 < t.length) :
    (parserUpdate cfg set t id w eb ex pos).1 =
      (t.set pos (cellSpec cfg (set.corr id .info) (set.corr id .data) (set.prog id)
          (t.getD pos blank) (w / 256 % 256) eb ex)).set (pos + 1)
        (cellSpec cfg (set.corr id .info) (set.corr id .data) (set.prog id)
          (t.getD (pos + 1) blank) (w % 256) eb ex) := by
  by_cases hg : eb ≤ set.corr id .info ∧ ex ≤ set.corr id .data
  · have hg' : (decide (eb ≤ set.corr id .info) && decide (ex ≤ set.corr id .data)) = true := by
      simp [hg.1, hg.2]
    unfold parserUpdate updateString
    rw [if_pos hg']
    simp only []
    rw [updateSingle_cellSpec cfg _ _ eb ex (pos + 1) _ _ _ (by simp; omega) hg.1 hg.2,
      updateSingle_cellSpec cfg t _ eb ex pos _ _ _ (by omega) hg.1 hg.2]
    rw [text_getD_set_ne _ _ _ _ (by omega)]
  · rw [cellSpec_gate_reject _ _ _ _ _ _ _ _ hg, cellSpec_gate_reject _ _ _ _ _ _ _ _ hg,
      set_getD_self]
    have : t.set (pos + 1) (t.getD (pos + 1) blank) = t := set_getD_self t (pos + 1)
    rw [this]
    have hg' : (decide (eb ≤ set.corr id .info) && decide (ex ≤ set.corr id .data)) = false := by
      simp only [Bool.and_eq_false_iff, decide_eq_false_iff_not]; omega
    unfold parserUpdate
    rw [hg']; rfl

/-- pointwise form of `parserUpdate_cellSpec` -/
theorem parserUpdate_getD (cfg : Cfg) (set : Settings) (t : Text) (id : TextId) (w eb ex pos : Nat)
    (hp : pos + 1 < t.length) (i : Nat) :
    (parserUpdate cfg set t id w eb ex pos).1.getD i blank =
      if i = pos then cellSpec cfg (set.corr id .info) (set.corr id .data) (set.prog id)
          (t.getD pos blank) (w / 256 % 256) eb ex
      else if i = pos + 1 then cellSpec cfg (set.corr id .info) (set.corr id .data) (set.prog id)
          (t.getD (pos + 1) blank) (w % 256) eb ex
      else t.getD i blank := by
  rw [parserUpdate_cellSpec _ _ _ _ _ _ _ _ hp]
  by_cases h1 : i = pos
  · subst h1
    rw [if_pos rfl, text_getD_set_ne _ _ _ _ (by omega), text_getD_set_eq _ _ _ (by omega)]
  · rw [if_neg h1]
    by_cases h2 : i = pos + 1
    · subst h2
      rw [if_pos rfl, text_getD_set_eq _ _ _ (by simp; omega)]
    · rw [if_neg h2, text_getD_set_ne _ _ _ _ (fun h => h2 h.symm), text_getD_set_ne _ _ _ _ (fun h => h1 h.symm)]

end RDS
