import RdsModel
import RdsSpec.Monitors
/-!
# RdsProofs.C12Calendar — the calendar core of C12

`civilFromDays z` (era / day-of-era algorithm of `RdsModel.Ct`) is, for every `z ≥ 0`, a valid
proleptic-Gregorian date whose Modified Julian Day (as defined by the specification functions
`mjdOf`/`ordinal` of `RdsSpec.Monitors`) is `z - 678881`.

Route: day-of-era → year-of-era by monotonicity of the year formula plus a 400-entry end-point
table (`decide +kernel`); month/day and the link to `ordinal` by linear arithmetic per month.
-/
namespace RDS
namespace C12

def fnI (n : Int) : Int := n - n/1460 + n/36524 - n/146096
def yoeI (n : Int) : Int := fnI n / 365
def ysI (y : Int) : Int := 365*y + y/4 - y/100

theorem fnI_mono {a b : Int} (_h0 : 0 ≤ a) (_hab : a ≤ b) (_hb : b < 146097) : fnI a ≤ fnI b := by
  unfold fnI; omega

theorem yoeI_mono {a b : Int} (h0 : 0 ≤ a) (hab : a ≤ b) (hb : b < 146097) : yoeI a ≤ yoeI b := by
  have := fnI_mono h0 hab hb
  unfold yoeI; omega

theorem yoe_table : ∀ y : Nat, y < 400 →
    yoeI (ysI y) = y ∧ yoeI (ysI (y+1) - 1 + (if y = 399 then 1 else 0)) = y := by
  decide +kernel
theorem ysI_succ (y : Int) : ysI (y + 1) = ysI y + 365 + ((y+1)/4 - y/4) - ((y+1)/100 - y/100) := by
  unfold ysI; omega

theorem ysI_bound (y : Int) (h0 : 0 ≤ y) (h1 : y ≤ 400) : 0 ≤ ysI y ∧ ysI y ≤ 146096 := by
  unfold ysI; omega

theorem yoeI_bracket (doe : Int) (h0 : 0 ≤ doe) (h1 : doe < 146097) :
    0 ≤ yoeI doe ∧ yoeI doe < 400 ∧ ysI (yoeI doe) ≤ doe ∧
      doe < ysI (yoeI doe + 1) + (if yoeI doe = 399 then 1 else 0) := by
  have hge : 0 ≤ yoeI doe := by
    have := yoeI_mono (Int.le_refl 0) h0 h1
    have e : yoeI 0 = 0 := by decide +kernel
    omega
  have hlt : yoeI doe < 400 := by
    have : yoeI doe ≤ yoeI 146096 := yoeI_mono h0 (by omega) (by omega)
    have e : yoeI 146096 = 399 := by decide +kernel
    omega
  obtain ⟨k, hk⟩ := Int.eq_ofNat_of_zero_le hge
  have hk400 : k < 400 := by omega
  refine ⟨hge, hlt, ?_, ?_⟩
  · rw [hk]
    apply Int.le_of_not_gt; intro hc
    have hpos : k ≠ 0 := by
      intro e; subst e; have : ysI ((0:Nat):Int) = 0 := by decide +kernel
      omega
    obtain ⟨j, hj⟩ : ∃ j, k = j + 1 := ⟨k - 1, by omega⟩
    subst hj
    have t := (yoe_table j (by omega)).2
    have hj399 : j ≠ 399 := by omega
    rw [if_neg hj399] at t
    have hcast : ((j + 1 : Nat) : Int) = (j : Int) + 1 := by omega
    rw [hcast] at hc hk
    have hs := ysI_succ (j : Int)
    have hb := ysI_bound ((j : Int) + 1) (by omega) (by omega)
    have hb' := ysI_bound (j : Int) (by omega) (by omega)
    have : yoeI doe ≤ yoeI (ysI ((j:Int) + 1) - 1 + 0) := yoeI_mono h0 (by omega) (by omega)
    omega
  · apply Int.lt_of_not_ge; intro hc
    by_cases h9 : yoeI doe = 399
    · rw [if_pos h9, h9] at hc
      have : ysI (399 + 1) = 146096 := by decide +kernel
      omega
    · rw [if_neg h9] at hc
      have t := (yoe_table (k + 1) (by omega)).1
      have hcast : ((k + 1 : Nat) : Int) = (k : Int) + 1 := by omega
      rw [hcast, ← hk] at t
      have hb := ysI_bound (yoeI doe + 1) (by omega) (by omega)
      have : yoeI (ysI (yoeI doe + 1)) ≤ yoeI doe := yoeI_mono (by omega) (by omega) h1
      omega
theorem isLeap_iff (y : Int) : isLeap y = true ↔ ((y % 4 = 0 ∧ y % 100 ≠ 0) ∨ y % 400 = 0) := by
  simp [isLeap]

def lp (y : Int) : Int := if isLeap y then 1 else 0

theorem ordinal_epoch : ordinal 1858 11 17 = 678575 := by decide +kernel

theorem dbm (y : Int) :
    daysBeforeMonth y 1 = 0 ∧ daysBeforeMonth y 2 = 31 ∧ daysBeforeMonth y 3 = 59 + lp y ∧
    daysBeforeMonth y 4 = 90 + lp y ∧ daysBeforeMonth y 5 = 120 + lp y ∧
    daysBeforeMonth y 6 = 151 + lp y ∧ daysBeforeMonth y 7 = 181 + lp y ∧
    daysBeforeMonth y 8 = 212 + lp y ∧ daysBeforeMonth y 9 = 243 + lp y ∧
    daysBeforeMonth y 10 = 273 + lp y ∧ daysBeforeMonth y 11 = 304 + lp y ∧
    daysBeforeMonth y 12 = 334 + lp y := by
  unfold lp
  cases h : isLeap y <;> simp [daysBeforeMonth, List.range_succ, daysInMonth, h]

theorem lp_cases (y : Int) : lp y = 0 ∨ lp y = 1 := by unfold lp; split <;> simp

theorem lp_eq (y : Int) :
    lp y = (y / 4 - (y - 1) / 4) - (y / 100 - (y - 1) / 100) + (y / 400 - (y - 1) / 400) := by
  have h := isLeap_iff y
  unfold lp
  split
  · rename_i hl; have := h.1 hl; omega
  · rename_i hl
    have : ¬ ((y % 4 = 0 ∧ y % 100 ≠ 0) ∨ y % 400 = 0) := fun c => hl (h.2 c)
    omega

theorem dby_succ (y : Int) : daysBeforeYear (y + 1) = daysBeforeYear y + 365 + lp y := by
  rw [lp_eq]; unfold daysBeforeYear; omega

theorem dby_era (era yoe : Int) (h0 : 0 ≤ yoe) (h1 : yoe < 400) :
    daysBeforeYear (yoe + era * 400) + lp (yoe + era * 400) = 146097 * era + ysI yoe - 365 := by
  rw [lp_eq]; unfold daysBeforeYear ysI; omega

theorem ylen (era yoe : Int) (h0 : 0 ≤ yoe) (h1 : yoe < 400) :
    ysI (yoe + 1) + (if yoe = 399 then 1 else 0) = ysI yoe + 365 + lp (yoe + era * 400 + 1) := by
  rw [lp_eq]; unfold ysI; split <;> omega

theorem dim_feb (y : Int) : daysInMonth y 2 = 28 + lp y := by
  cases h : isLeap y <;> simp [daysInMonth, lp, h]

theorem core (era doe yoe doy mp d : Int) (_hera : 0 ≤ era) (hy0 : 0 ≤ yoe) (hy1 : yoe < 400)
    (hlo : ysI yoe ≤ doe) (hhi : doe < ysI (yoe + 1) + (if yoe = 399 then 1 else 0))
    (hdoy : doy = doe - ysI yoe) (hmp : mp = (5 * doy + 2) / 153)
    (hd : d = doy - (153 * mp + 2) / 5 + 1) :
    validDate (if (if mp < 10 then mp + 3 else mp - 9) ≤ 2 then yoe + era * 400 + 1 else yoe + era * 400)
        (if mp < 10 then mp + 3 else mp - 9) d = true ∧
    mjdOf (if (if mp < 10 then mp + 3 else mp - 9) ≤ 2 then yoe + era * 400 + 1 else yoe + era * 400)
        (if mp < 10 then mp + 3 else mp - 9) d = era * 146097 + doe - 678881 := by
  have hlen := ylen era yoe hy0 hy1
  have hdby := dby_era era yoe hy0 hy1
  have hsucc := dby_succ (yoe + era * 400)
  have hfeb := dim_feb (yoe + era * 400 + 1)
  have hl0 := lp_cases (yoe + era * 400)
  have hl1 := lp_cases (yoe + era * 400 + 1)
  have hE0 : (if isLeap (yoe + era * 400) = true then (1:Int) else 0) = lp (yoe + era * 400) := rfl
  have hE1 : (if isLeap (yoe + era * 400 + 1) = true then (1:Int) else 0) = lp (yoe + era * 400 + 1) := rfl
  rw [hlen] at hhi
  generalize lp (yoe + era * 400 + 1) = l1 at *
  generalize lp (yoe + era * 400) = l0 at *
  generalize ysI yoe = ys at *
  have hmpr : mp = 0 ∨ mp = 1 ∨ mp = 2 ∨ mp = 3 ∨ mp = 4 ∨ mp = 5 ∨ mp = 6 ∨ mp = 7 ∨ mp = 8 ∨
      mp = 9 ∨ mp = 10 ∨ mp = 11 := by omega
  simp only [mjdOf]
  simp only [ordinal_epoch]
  simp only [ordinal, validDate, Bool.and_eq_true, decide_eq_true_eq]
  rcases hmpr with h|h|h|h|h|h|h|h|h|h|h|h
  · subst h
    have hb := (dbm (yoe + era * 400)).2.2.1
    unfold lp at hb
    simp only [hE0] at hb
    simp [daysInMonth, hb]
    omega
  · subst h
    have hb := (dbm (yoe + era * 400)).2.2.2.1
    unfold lp at hb
    simp only [hE0] at hb
    simp [daysInMonth, hb]
    omega
  · subst h
    have hb := (dbm (yoe + era * 400)).2.2.2.2.1
    unfold lp at hb
    simp only [hE0] at hb
    simp [daysInMonth, hb]
    omega
  · subst h
    have hb := (dbm (yoe + era * 400)).2.2.2.2.2.1
    unfold lp at hb
    simp only [hE0] at hb
    simp [daysInMonth, hb]
    omega
  · subst h
    have hb := (dbm (yoe + era * 400)).2.2.2.2.2.2.1
    unfold lp at hb
    simp only [hE0] at hb
    simp [daysInMonth, hb]
    omega
  · subst h
    have hb := (dbm (yoe + era * 400)).2.2.2.2.2.2.2.1
    unfold lp at hb
    simp only [hE0] at hb
    simp [daysInMonth, hb]
    omega
  · subst h
    have hb := (dbm (yoe + era * 400)).2.2.2.2.2.2.2.2.1
    unfold lp at hb
    simp only [hE0] at hb
    simp [daysInMonth, hb]
    omega
  · subst h
    have hb := (dbm (yoe + era * 400)).2.2.2.2.2.2.2.2.2.1
    unfold lp at hb
    simp only [hE0] at hb
    simp [daysInMonth, hb]
    omega
  · subst h
    have hb := (dbm (yoe + era * 400)).2.2.2.2.2.2.2.2.2.2.1
    unfold lp at hb
    simp only [hE0] at hb
    simp [daysInMonth, hb]
    omega
  · subst h
    have hb := (dbm (yoe + era * 400)).2.2.2.2.2.2.2.2.2.2.2
    unfold lp at hb
    simp only [hE0] at hb
    simp [daysInMonth, hb]
    omega
  · subst h
    have hb := (dbm (yoe + era * 400 + 1)).1
    simp [daysInMonth, hb]
    omega
  · subst h
    have hb := (dbm (yoe + era * 400 + 1)).2.1
    simp [hfeb, hb]
    omega
end C12

theorem civilFromDays_correct (z : Int) (hz : 0 ≤ z) :
    let r := civilFromDays z
    validDate r.1 r.2.1 r.2.2 = true ∧ mjdOf r.1 r.2.1 r.2.2 = z - 678881 := by
  have hdoe0 : 0 ≤ z % 146097 := Int.emod_nonneg _ (by decide)
  have hdoe1 : z % 146097 < 146097 := Int.emod_lt_of_pos _ (by decide)
  have hera : 0 ≤ z / 146097 := by omega
  obtain ⟨hy0, hy1, hlo, hhi⟩ := C12.yoeI_bracket (z % 146097) hdoe0 hdoe1
  have hz' : z = z / 146097 * 146097 + z % 146097 := by omega
  have h := C12.core (z / 146097) (z % 146097) (C12.yoeI (z % 146097)) _ _ _ hera hy0 hy1 hlo hhi rfl rfl rfl
  rw [← hz'] at h
  exact h
end RDS

#print axioms RDS.civilFromDays_correct
