import RdsProofs.TableBase
import RdsProofs.TableC02
/-!
# RdsProofs.TableC20 — kernel-checked theorems about the RDSPARSER_DISABLE_UNICODE build's tables (C20)

`Generated.*` is read out of the compiled library on every run; `Reference.*` is the hand-written
oracle. Every theorem rests on closed, finite `Bool` facts evaluated by the kernel (`decide +kernel`)
over the *whole* table (one pass: indexing a 256-entry list per cell is quadratic in the kernel), then
lifted to `∀` by the `tbl_…` lemmas of `RdsProofs.TableBase`.
-/

-- the kernel evaluations are memory-bound; checking them concurrently is slower than in sequence
set_option Elab.async false

namespace RDS
open RDS.TableCheck

/-! ## C20 — the `RDSPARSER_DISABLE_UNICODE` build -/

theorem C20_narrow_stored : Generated.narrowStored = storedExpected := eq_of_beq (by decide +kernel)
theorem C20_narrow_values : Generated.narrow = narrowExpected := eq_of_beq (by decide +kernel)

theorem C20_narrow_table : ∀ b, b < 256 →
    Generated.narrowStored.getD b false = (b == 0x0D || decide (0x20 ≤ b)) ∧
    Generated.narrow.getD b 0 =
      (if b = 0x0D then 0 else if b < 0x20 then 32 else if b < 0x7F then b else 0x20) := by
  intro b hb
  rw [tbl_getD_of_eq_map_range C20_narrow_stored b hb, tbl_getD_of_eq_map_range C20_narrow_values b hb]
  simp [Reference.stored, Reference.narrowValue, Reference.notStored]

/-- the narrow rule is the model's `conv` on every stored byte -/
theorem C20_narrow_is_conv : ∀ b, b < 256 → (b = 0x0D ∨ 0x20 ≤ b) →
    Generated.narrow.getD b 0 = RDS.conv (Generated.cfg false) b := by
  intro b hb hs
  rw [(C20_narrow_table b hb).2]
  simp only [RDS.conv, Generated.cfg]
  by_cases h0 : b = 0x0D
  · simp [h0]
  · have h20 : ¬ b < 0x20 := by omega
    by_cases h7 : b < 0x7F
    · have : ¬ 0x7F ≤ b := by omega
      simp [h0, h20, h7, this]
    · have : 0x7F ≤ b := by omega
      simp [h0, h20, h7, this]

theorem C20_consts :
    Generated.constsAgree = true ∧ Generated.eccCountryNarrowAgrees = true ∧
    Generated.lookupsNarrowAgree = true := by decide +kernel

/-- G0 on the ISO 646 range: the identity except for the four code positions that IEC 62106
assigns differently (¤ for $, ― for ^, ‖ for `, ¯ for ~) -/
def tbl_asciiVal (b : Nat) : Nat :=
  if b = 0x24 then 0xA4 else if b = 0x5E then 0x2015 else if b = 0x60 then 0x2016
  else if b = 0x7E then 0xAF else b

theorem C20_g0_ascii : ∀ b, 0x20 ≤ b → b ≤ 0x7E → Generated.g0.getD b 0 = tbl_asciiVal b := by
  intro b h20 h7e
  have h := tbl_zipIdx_all (l := Generated.g0)
    (p := fun i x => decide (i < 0x20) || decide (0x7E < i) || x == tbl_asciiVal i)
    (by decide +kernel) b 0 (by rw [tbl_generated_lengths.1]; omega)
  have h1 : ¬ b < 0x20 := by omega
  have h2 : ¬ 0x7E < b := by omega
  simpa [h1, h2] using h

/-- on 0x20..0x7E the default build's table is injective, fixes the space and never yields 0 -/
theorem C20_g0_injective_ascii :
    (∀ a b, 0x20 ≤ a → a ≤ 0x7E → 0x20 ≤ b → b ≤ 0x7E →
      Generated.g0.getD a 0 = Generated.g0.getD b 0 → a = b) ∧
    Generated.g0.getD 0x20 0 = 0x20 ∧
    (∀ a, 0x20 ≤ a → a ≤ 0x7E → Generated.g0.getD a 0 ≠ 0) := by
  refine ⟨?_, by decide +kernel, ?_⟩
  · intro a b ha ha' hb hb' heq
    rw [C20_g0_ascii a ha ha', C20_g0_ascii b hb hb'] at heq
    unfold tbl_asciiVal at heq
    repeat' split at heq
    all_goals omega
  · intro a ha ha'
    exact C02_no_nul a ha (by omega) (by omega)


#print axioms C20_narrow_table
#print axioms C20_narrow_is_conv
#print axioms C20_consts
#print axioms C20_g0_ascii
#print axioms C20_g0_injective_ascii

end RDS
