import RdsProofs.C04Frame
/-!
# RdsProofs.C04Stages — `HOk` for the elementary stages of the handlers
-/
namespace RDS


theorem compOf_of_kindP {k : EvKind} {Y : Comp} (h : Y.kindP k = true) (hna : Y ≠ .af) :
    compOf k = some Y := by
  cases Y
  case af => exact absurd rfl hna
  case sc f => cases f <;> cases k <;> simp_all [Comp.kindP, compOf, Fld.ev]
  all_goals (cases k <;> simp_all [Comp.kindP, compOf])

theorem rtBadP_of_compOf {k : EvKind} {X : Comp} (h : compOf k = some X) : rtBadP k = false := by
  cases k <;> simp_all [compOf, rtBadP]
  rename_i f
  split at h
  · omega
  · split at h
    · omega
    · cases h

theorem afP_of_compOf {k : EvKind} {X : Comp} (h : compOf k = some X) : Comp.af.kindP k = false := by
  cases k <;> simp_all [compOf, Comp.kindP]

theorem ownGood_of_snap {e : Event} {fin : State} (h : e.snap = fin)
    (ha : ∀ k, e.kind = .af k → fin.used.af.getD ((k - 87500) / 100) false = true) : ownGood fin e := by
  obtain ⟨k, u, sn⟩ := e
  simp only at h; subst h
  cases k <;> simp only [ownGood]
  case af k => exact ha k rfl

/-- a stage that emits at most one event of kind `k` (component `X`) from its final state -/
theorem HOk_single {X : Comp} {s s' : State} {k : EvKind} {cond forcedB : Bool}
    (hreg : ∀ c, s'.registered c = s.registered c)
    (htouch : ∀ Y, Y ≠ X → Y.view s' = Y.view s)
    (hk : compOf k = some X)
    (hcond : cond = true ↔ (X.view s' ≠ X.view s ∨ forcedB = true)) :
    HOk [X] (if forcedB then [X] else []) s (s', if cond then emit s' k.cb k else []) := by
  obtain ⟨hkp, hcb, hna⟩ := compOf_spec hk
  have hkinds : ∀ e ∈ (if cond then emit s' k.cb k else []), e.kind = k ∧ e.snap = s' ∧ s.registered k.cb = true := by
    intro e he
    split at he
    · have := mem_emit he
      exact ⟨this.1, this.2.1, by rw [← hreg]; exact this.2.2.2⟩
    · simp at he
  refine ⟨hreg, ?_, ?_, ?_, ?_, ?_, ?_, ?_⟩
  · intro Y hY; exact htouch Y (by simpa using hY)
  · intro Y hY; cases forcedB <;> simp_all
  · intro Y hYa hYr
    show cntK (if cond then emit s' k.cb k else []) Y.kindP = _
    by_cases hYX : Y = X
    · subst hYX
      have hm : (Y ∈ if forcedB = true then [Y] else []) ↔ forcedB = true := by cases forcedB <;> simp
      by_cases hc : cond = true
      · rw [if_pos hc, if_pos ((hcond.1 hc).imp id hm.2), cntK_emit, hreg, ← hcb, hYr, hkp]; rfl
      · rw [if_neg hc, if_neg (fun h => hc (hcond.2 (h.imp id hm.1)))]; rfl
    · have hv := htouch Y hYX
      have hF : Y ∉ (if forcedB = true then [X] else []) := by cases forcedB <;> simp [hYX]
      refine Eq.trans ?_ (if_neg (fun h => h.elim (fun h => h hv) hF)).symm
      apply cntK_zero_of
      intro e he
      rw [(hkinds e he).1]
      cases hp : Y.kindP k
      · rfl
      · have := compOf_of_kindP hp hYa
        rw [hk] at this; cases this; exact absurd rfl hYX
  · apply cntK_zero_of
    intro e he
    rw [(hkinds e he).1]; exact rtBadP_of_compOf hk
  · intro _
    show AfOk s.used.af s'.used.af (afKhz _)
    have hv := htouch .af (fun h => hna h.symm)
    simp only [Comp.view, CV.b.injEq] at hv
    rw [hv, afKhz_eq_nil_of]
    · exact AfOk_refl _
    · intro e he; rw [(hkinds e he).1]; exact afP_of_compOf hk
  · intro e he; rw [(hkinds e he).1]; exact (hkinds e he).2.2
  · intro e he
    apply ownGood_of_snap (hkinds e he).2.1
    intro k' hk'
    rw [(hkinds e he).1] at hk'; subst hk'
    simp [compOf] at hk



theorem Fld.ev_cb (f : Fld) : f.ev.cb = f.cb := by cases f <;> rfl
theorem compOf_ev (f : Fld) : compOf f.ev = some (.sc f) := by cases f <;> rfl

theorem HOk_setField (s : State) (f : Fld) (v : Int) : HOk [.sc f] [] s (setField s f v) := by
  have h := @HOk_single (.sc f) s (setField s f v).1 f.ev
    (decide ((setField s f v).1.used.get f ≠ s.used.get f)) false
    (fun c => setField_registered s f v c)
    (by
      intro Y hY
      cases Y
      case sc f' =>
        have : f' ≠ f := fun h => hY (by rw [h])
        simp [Comp.view, setField_used_get_ne s f v f' this]
      all_goals simp [Comp.view])
    (compOf_ev f)
    (by simp [Comp.view])
  rw [Fld.ev_cb] at h
  have he : (setField s f v) = ((setField s f v).1,
      if decide ((setField s f v).1.used.get f ≠ s.used.get f) = true then emit (setField s f v).1 f.cb f.ev else []) := by
    apply Prod.ext
    · rfl
    · rw [setField_evs]; simp
  rw [he]
  simpa using h


/-! ## `setRt` -/
section setRt
variable (s : State) (fl : Nat) (t : Text)
@[simp] theorem setRt_used : (s.setRt fl t).used = s.used := by unfold State.setRt; split <;> rfl
@[simp] theorem setRt_set : (s.setRt fl t).set = s.set := by unfold State.setRt; split <;> rfl
@[simp] theorem setRt_ps : (s.setRt fl t).ps = s.ps := by unfold State.setRt; split <;> rfl
@[simp] theorem setRt_ptyn : (s.setRt fl t).ptyn = s.ptyn := by unfold State.setRt; split <;> rfl
@[simp] theorem setRt_cbs : (s.setRt fl t).cbs = s.cbs := by unfold State.setRt; split <;> rfl
@[simp] theorem setRt_ud : (s.setRt fl t).ud = s.ud := by unfold State.setRt; split <;> rfl
@[simp] theorem setRt_lastRt : (s.setRt fl t).lastRt = s.lastRt := by unfold State.setRt; split <;> rfl
@[simp] theorem setRt_registered (c : Cb) : (s.setRt fl t).registered c = s.registered c := by
  simp [State.registered]
@[simp] theorem setRt_rt_self : (s.setRt fl t).rt fl = t := by
  unfold State.setRt State.rt; split <;> simp_all
theorem setRt_rt0 : (s.setRt fl t).rt0 = if fl = 0 then t else s.rt0 := by
  unfold State.setRt; split <;> rfl
theorem setRt_rt1 : (s.setRt fl t).rt1 = if fl = 0 then s.rt1 else t := by
  unfold State.setRt; split <;> rfl
end setRt

/-- the model's "switch discards the previous text" condition of `group2` -/
def clr2 (s : State) (g : Group) : Bool :=
  (decide (g.eb = 0) && (((g.b / 16 % 2 : Nat) : Int) != s.lastRt)) && s.lastRt != -1 &&
    getAvailable (s.rt (g.b / 16 % 2))

def rtComp (g : Group) : Comp := if g.b / 16 % 2 = 0 then .rt0 else .rt1

theorem compOf_rt (g : Group) : compOf (.rt (g.b / 16 % 2)) = some (rtComp g) := by
  unfold compOf rtComp
  have : g.b / 16 % 2 = 0 ∨ g.b / 16 % 2 = 1 := by omega
  rcases this with h | h <;> simp [h]

theorem rtComp_view (g : Group) (s : State) : (rtComp g).view s = .t (s.rt (g.b / 16 % 2)) := by
  unfold rtComp State.rt
  split <;> simp [Comp.view]


theorem rt_update_HOk (cfg : Cfg) (s0 s2 : State) (g : Group) (clr : Bool)
    (hreg : ∀ c, s2.registered c = s0.registered c) (hused : s2.used = s0.used)
    (hps : s2.ps = s0.ps) (hptyn : s2.ptyn = s0.ptyn)
    (h0 : g.b / 16 % 2 ≠ 0 → s2.rt0 = s0.rt0) (h1 : g.b / 16 % 2 = 0 → s2.rt1 = s0.rt1)
    (hclr : clr = false → s2.rt (g.b / 16 % 2) = s0.rt (g.b / 16 % 2))
    (u1 u2 : Text × Bool)
    (hu1 : u1 = if !g.versionB
      then parserUpdate cfg s2.set (s2.rt (g.b / 16 % 2)) .rt g.c g.eb g.ec (4 * (g.b % 16))
      else (s2.rt (g.b / 16 % 2), false))
    (hu2 : u2 = parserUpdate cfg s2.set u1.1 .rt g.d g.eb g.ed
      (if !g.versionB then 4 * (g.b % 16) + 2 else 2 * (g.b % 16))) :
    HOk [rtComp g] (if clr then [rtComp g] else []) s0
      (s2.setRt (g.b / 16 % 2) u2.1,
       if clr || u1.2 || u2.2 then emit (s2.setRt (g.b / 16 % 2) u2.1) .rt (.rt (g.b / 16 % 2)) else []) := by
  have hk := compOf_rt g
  have h := @HOk_single (rtComp g) s0 (s2.setRt (g.b / 16 % 2) u2.1) (.rt (g.b / 16 % 2))
    (clr || u1.2 || u2.2) clr (by intro c; simp [hreg]) ?_ hk ?_
  · exact h
  · intro Y hY
    cases Y
    case sc f => simp [Comp.view, hused]
    case af => simp [Comp.view, hused]
    case ps => simp [Comp.view, hps]
    case ptyn => simp [Comp.view, hptyn]
    case rt0 =>
      have : g.b / 16 % 2 ≠ 0 := fun h => hY (by simp [rtComp, h])
      simp [Comp.view, setRt_rt0, this, h0 this]
    case rt1 =>
      have : g.b / 16 % 2 = 0 := by
        apply Classical.byContradiction; intro h; exact hY (by simp [rtComp, h])
      simp [Comp.view, setRt_rt1, this, h1 this]
  · rw [rtComp_view, rtComp_view, setRt_rt_self]
    cases clr
    · have hc := hclr rfl
      simp only [Bool.false_or, ne_eq, CV.t.injEq, Bool.false_eq_true, or_false]
      rw [← hc, hu2]
      cases hv : g.versionB
      · simp only [hv, Bool.not_false, if_true] at hu1 ⊢
        rw [hu1]
        exact parserUpdate2_changed_iff cfg s2.set _ .rt g.c g.d g.eb g.ec g.ed _ _ (by omega)
      · simp only [hv, Bool.not_true, Bool.false_eq_true, if_false] at hu1 ⊢
        rw [hu1]
        simp only [Bool.false_or]
        exact parserUpdate_changed_iff ..
    · simp


/-- the state of `group2` after toggle detection -/
def c04_g2s2 (s : State) (g : Group) : State :=
  let flag := g.b / 16 % 2
  let sw := decide (g.eb = 0) && ((flag : Int) != s.lastRt)
  let clr := sw && s.lastRt != -1 && getAvailable (s.rt flag)
  let s1 := if clr then s.setRt flag (s.rt flag).cleared else s
  if sw then { s1 with lastRt := flag } else s1

theorem c04_group2_eq (cfg : Cfg) (s : State) (g : Group) :
    group2 cfg s g =
      if g.eb != 0 && ((g.b / 16 % 2 : Nat) : Int) != (c04_g2s2 s g).lastRt && (c04_g2s2 s g).lastRt != -1
      then (c04_g2s2 s g, [])
      else
        let u1 := if !g.versionB
          then parserUpdate cfg (c04_g2s2 s g).set ((c04_g2s2 s g).rt (g.b / 16 % 2)) .rt g.c g.eb g.ec (4 * (g.b % 16))
          else ((c04_g2s2 s g).rt (g.b / 16 % 2), false)
        let u2 := parserUpdate cfg (c04_g2s2 s g).set u1.1 .rt g.d g.eb g.ed
          (if !g.versionB then 4 * (g.b % 16) + 2 else 2 * (g.b % 16))
        ((c04_g2s2 s g).setRt (g.b / 16 % 2) u2.1,
          if clr2 s g || u1.2 || u2.2
          then emit ((c04_g2s2 s g).setRt (g.b / 16 % 2) u2.1) .rt (.rt (g.b / 16 % 2)) else []) := rfl

theorem g2s2_of_eb {s : State} {g : Group} (h : g.eb ≠ 0) : c04_g2s2 s g = s := by
  simp [c04_g2s2, h]

theorem g2s2_facts (s : State) (g : Group) :
    (∀ c, (c04_g2s2 s g).registered c = s.registered c) ∧ (c04_g2s2 s g).used = s.used ∧
    (c04_g2s2 s g).ps = s.ps ∧ (c04_g2s2 s g).ptyn = s.ptyn ∧
    (g.b / 16 % 2 ≠ 0 → (c04_g2s2 s g).rt0 = s.rt0) ∧ (g.b / 16 % 2 = 0 → (c04_g2s2 s g).rt1 = s.rt1) ∧
    (clr2 s g = false → (c04_g2s2 s g).rt (g.b / 16 % 2) = s.rt (g.b / 16 % 2)) := by
  unfold c04_g2s2 clr2
  simp only
  generalize (decide (g.eb = 0) && ((g.b / 16 % 2 : Nat) : Int) != s.lastRt) = sw
  generalize (sw && s.lastRt != -1 && getAvailable (s.rt (g.b / 16 % 2))) = clr
  cases sw <;> cases clr <;>
    simp (config := { contextual := true }) [State.registered, State.rt, setRt_rt0, setRt_rt1]

theorem HOk_group2 (cfg : Cfg) (s : State) (g : Group) :
    HOk [rtComp g] (if clr2 s g then [rtComp g] else []) s (group2 cfg s g) := by
  rw [c04_group2_eq]
  by_cases hg : (g.eb != 0 && ((g.b / 16 % 2 : Nat) : Int) != (c04_g2s2 s g).lastRt && (c04_g2s2 s g).lastRt != -1) = true
  · rw [if_pos hg]
    have heb : g.eb ≠ 0 := by
      intro h; simp [h] at hg
    rw [g2s2_of_eb heb]
    have hc : clr2 s g = false := by simp [clr2, heb]
    rw [hc]
    exact HOk_mono (HOk_id s) (by rfl)
  · rw [if_neg hg]
    obtain ⟨a, b, c, d, e, f, h⟩ := g2s2_facts s g
    exact rt_update_HOk cfg s (c04_g2s2 s g) g (clr2 s g) a b c d e f h _ _ rfl rfl

/-! ## PS, PTYN, CT -/
theorem HOk_psStage (cfg : Cfg) (s : State) (w eb ex pos : Nat) :
    HOk [.ps] [] s
      ({ s with ps := (parserUpdate cfg s.set s.ps .ps w eb ex pos).1 },
       if (parserUpdate cfg s.set s.ps .ps w eb ex pos).2
       then emit { s with ps := (parserUpdate cfg s.set s.ps .ps w eb ex pos).1 } .ps .ps else []) := by
  have h := @HOk_single .ps s { s with ps := (parserUpdate cfg s.set s.ps .ps w eb ex pos).1 } .ps
    (parserUpdate cfg s.set s.ps .ps w eb ex pos).2 false (fun _ => rfl)
    (by intro Y hY; cases Y <;> first | rfl | exact absurd rfl hY) rfl
    (by simpa [Comp.view] using parserUpdate_changed_iff cfg s.set s.ps .ps w eb ex pos)
  exact h

theorem HOk_group10 (cfg : Cfg) (s : State) (g : Group) : HOk [.ptyn] [] s (group10 cfg s g) := by
  unfold group10
  split
  · have h := @HOk_single .ptyn s
      { s with ptyn := (parserUpdate cfg s.set (parserUpdate cfg s.set s.ptyn .ptyn g.c g.eb g.ec (4 * (g.b % 2))).1
          .ptyn g.d g.eb g.ed (4 * (g.b % 2) + 2)).1 } .ptyn
      ((parserUpdate cfg s.set s.ptyn .ptyn g.c g.eb g.ec (4 * (g.b % 2))).2 ||
        (parserUpdate cfg s.set (parserUpdate cfg s.set s.ptyn .ptyn g.c g.eb g.ec (4 * (g.b % 2))).1
          .ptyn g.d g.eb g.ed (4 * (g.b % 2) + 2)).2) false (fun _ => rfl)
      (by intro Y hY; cases Y <;> first | rfl | exact absurd rfl hY) rfl
      (by
        have := parserUpdate2_changed_iff cfg s.set s.ptyn .ptyn g.c g.d g.eb g.ec g.ed (4 * (g.b % 2)) (4 * (g.b % 2) + 2) (by omega)
        simpa [Comp.view] using this)
    exact h
  · exact HOk_mono (HOk_id s) (by rfl)

theorem HOk_ct (s : State) (l : List Event)
    (h : ∀ e ∈ l, (∃ v, e.kind = .ct v) ∧ s.registered .ct = true) : HOk [] [] s (s, l) := by
  have hz : ∀ p : EvKind → Bool, (∀ v, p (.ct v) = false) → cntK l p = 0 := by
    intro p hp
    apply cntK_zero_of
    intro e he
    obtain ⟨⟨v, hv⟩, _⟩ := h e he
    rw [hv]; exact hp v
  refine ⟨fun _ => rfl, fun _ _ => rfl, fun _ h => h, ?_, ?_, ?_, ?_, ?_⟩
  · intro X hXa hr
    clear hr
    rw [hz]
    · simp
    · intro v; cases X
      case sc f => cases f <;> rfl
      all_goals rfl
  · exact hz _ (fun _ => rfl)
  · intro _
    show AfOk s.used.af s.used.af (afKhz l)
    rw [afKhz_eq_nil_of]
    · exact AfOk_refl _
    · intro e he
      obtain ⟨⟨v, hv⟩, _⟩ := h e he
      rw [hv]; rfl
  · intro e he
    obtain ⟨⟨v, hv⟩, hr⟩ := h e he
    rw [hv]; exact hr
  · intro e he
    obtain ⟨⟨v, hv⟩, hr⟩ := h e he
    obtain ⟨k, u, sn⟩ := e
    simp only at hv; subst hv
    trivial

theorem HOk_group4 (s : State) (g : Group) : HOk [] [] s (group4 s g) := by
  unfold group4
  split
  · dsimp only
    split
    · apply HOk_ct
      intro e he
      have := mem_emit he
      exact ⟨⟨_, this.1⟩, this.2.2.2⟩
    · exact HOk_id s
  · exact HOk_id s

/-! ## the AF pair of a 0A group -/
theorem addAf_cases (s : State) (v : Nat) (hlen : s.used.af.length = afBits) :
    (afNew s v = false ∧ (addAf s v).1.used.af = s.used.af ∧ (addAf s v).2 = []) ∨
    (afNew s v = true ∧ ∃ hv : v < s.used.af.length, s.used.af[v] = false ∧
      (addAf s v).1.used.af = s.used.af.set v true ∧
      (addAf s v).2 = emit (addAf s v).1 .af (.af (87500 + v * 100))) := by
  cases h : afNew s v
  · left; refine ⟨rfl, ?_, ?_⟩
    · rw [addAf_used_af, h]; rfl
    · rw [addAf_evs, h]; rfl
  · right
    have hv : v < s.used.af.length := by
      simp only [afNew, afValid, Bool.and_eq_true, decide_eq_true_eq] at h
      rw [hlen]; unfold afBits; omega
    refine ⟨rfl, hv, ?_, ?_, ?_⟩
    · simp only [afNew, afGet, Bool.and_eq_true, Bool.not_eq_true', Bool.and_eq_false_iff] at h
      obtain ⟨⟨h1, _⟩, h3⟩ := h
      rcases h1 with h1 | h1
      · rw [h3] at h1; cases h1
      · rw [List.getD_eq_getElem?_getD, List.getElem?_eq_getElem hv] at h1
        simpa using h1
    · rw [addAf_used_af, h]; rfl
    · rw [addAf_evs, h]; rfl

theorem afKhz_emit_af (s : State) (k : Nat) :
    afKhz (emit s .af (.af k)) = if s.registered .af then [k] else [] := by
  unfold emit; split <;> simp [afKhz, afEventKhz, EvObs.ofEvent]

theorem mem_addAf {s : State} {v : Nat} {e : Event} (hlen : s.used.af.length = afBits)
    (he : e ∈ (addAf s v).2) :
    e.kind = .af (87500 + v * 100) ∧ s.registered .af = true ∧
      e.snap.used.af.getD v false = true := by
  rcases addAf_cases s v hlen with ⟨_, _, h⟩ | ⟨_, hv, _, h2, h⟩
  · rw [h] at he; simp at he
  · rw [h] at he
    obtain ⟨a, b, _, d⟩ := mem_emit he
    refine ⟨a, by simpa using d, ?_⟩
    rw [b, h2, List.getD_eq_getElem?_getD, List.getElem?_set_self hv]; rfl

theorem addAf_af_length (s : State) (v : Nat) : (addAf s v).1.used.af.length = s.used.af.length := by
  rw [addAf_used_af]; split <;> simp

theorem HOk_afPair (s : State) (v1 v2 : Nat) (hlen : s.used.af.length = afBits) :
    HOk [.af] [] s ((addAf (addAf s v1).1 v2).1, (addAf s v1).2 ++ (addAf (addAf s v1).1 v2).2) := by
  have hlen2 : (addAf s v1).1.used.af.length = afBits := by rw [addAf_af_length, hlen]
  have hmem : ∀ e ∈ (addAf s v1).2 ++ (addAf (addAf s v1).1 v2).2,
      ∃ v, e.kind = .af (87500 + v * 100) ∧ s.registered .af = true ∧ e.snap.used.af.getD v false = true := by
    intro e he
    simp only [List.mem_append] at he
    rcases he with he | he
    · exact ⟨v1, mem_addAf hlen he⟩
    · have := mem_addAf hlen2 he
      exact ⟨v2, this.1, by simpa using this.2.1, this.2.2⟩
  have hz : ∀ p : EvKind → Bool, (∀ k, p (.af k) = false) →
      cntK ((addAf s v1).2 ++ (addAf (addAf s v1).1 v2).2) p = 0 := by
    intro p hp
    apply cntK_zero_of
    intro e he
    obtain ⟨v, hv, _⟩ := hmem e he
    rw [hv]; exact hp _
  refine ⟨by intro c; simp, ?_, fun _ h => by simp at h, ?_, ?_, ?_, ?_, ?_⟩
  · intro X hX
    cases X
    case af => simp at hX
    all_goals simp [Comp.view]
  · intro X hXa hr
    clear hr
    show cntK ((addAf s v1).2 ++ (addAf (addAf s v1).1 v2).2) X.kindP = _
    rw [hz]
    · cases X
      case af => exact absurd rfl hXa
      all_goals simp [Comp.view]
    · intro k; cases X
      case sc f => cases f <;> rfl
      all_goals first | rfl | exact absurd rfl hXa
  · exact hz _ (fun _ => rfl)
  · intro hr
    show AfOk s.used.af (addAf (addAf s v1).1 v2).1.used.af (afKhz ((addAf s v1).2 ++ (addAf (addAf s v1).1 v2).2))
    have hr2 : (addAf s v1).1.registered .af = true := by simpa using hr
    have hr3 : (addAf (addAf s v1).1 v2).1.registered .af = true := by simpa using hr
    rw [afKhz_append]
    rcases addAf_cases s v1 hlen with ⟨_, a1, e1⟩ | ⟨_, hv1, f1, a1, e1⟩ <;>
      rcases addAf_cases (addAf s v1).1 v2 hlen2 with ⟨_, a2, e2⟩ | ⟨_, hv2, f2, a2, e2⟩
    · rw [e1, e2, a2, a1]; exact AfOk_refl _
    · rw [e1, e2, a2, afKhz_emit_af, hr3]
      simp only [a1] at hv2 f2 ⊢
      constructor
      · rw [nac_set _ _ _ hv2 f2]; simp [Nat.mul_comm]
      · simp
    · rw [e1, e2, a2, a1, afKhz_emit_af, hr2]
      constructor
      · rw [nac_set _ _ _ hv1 f1]; simp [Nat.mul_comm]
      · simp
    · rw [e1, e2, a2, afKhz_emit_af, afKhz_emit_af, hr2, hr3]
      simp only [a1] at hv2 f2 ⊢
      have hv2' : v2 < s.used.af.length := by simpa using hv2
      have hne : v1 ≠ v2 := by
        intro h; subst h
        rw [List.getElem_set_self] at f2; cases f2
      have f2' : s.used.af[v2] = false := by
        rw [List.getElem_set_ne hne] at f2; exact f2
      constructor
      · rw [nac_set2 _ _ _ _ hv1 hv2' f1 f2' hne]
        simp only [if_true, List.nil_append, List.cons_append, Nat.zero_add]
        split
        · simp [Nat.mul_comm]
        · rw [sortNat_pair_comm]; simp [Nat.mul_comm]
      · simp
  · intro e he
    obtain ⟨v, hv, hr, _⟩ := hmem e he
    rw [hv]; exact hr
  · intro e he
    obtain ⟨v, hv, _, hg⟩ := hmem e he
    obtain ⟨k, u, sn⟩ := e
    simp only at hv hg; subst hv
    simp only [ownGood]
    have : (87500 + v * 100 - 87500) / 100 = v := by omega
    rw [this]; exact hg
end RDS
