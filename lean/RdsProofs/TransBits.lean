import RdsC
import RdsModel.Groups
import RdsProofs.C12Calendar
/-!
# RdsProofs.TransBits — pilot refinement proofs for the c2lean translation (C2LEAN_SPEC §8.3)

Each theorem relates a function of the *generated* `RdsC/Translated.lean` (the C source seen
through `tools/c2lean.py`) to the expression the hand-written model (`RdsModel/*`) uses.

* bit-field getters of `group*.c` / `parser.c`: mask-and-shift = `/`,`%` for **all** naturals
  (the 16-bit bound is only needed where a field is assembled from two blocks);
* `rdsparser_string_calculate_error` = `calcError` exactly when `2*ei + 3*ed < 256`;
* `rdsparser_af_get` / `rdsparser_af_set` = `afGet` / `afSet` through `bitsOf` (26 bytes MSB-first);
* `rdsparser_ct_init` = `ctInit` for hour < 32, minute < 64, |offset| ≤ 31, mjd < 2^17.
-/
set_option linter.unusedSimpArgs false

namespace RDS.C.TransBits
open RDS RDS.C

/-! ## masks and shifts on naturals -/

/-- `n & M` for a contiguous mask `M = (q-1)·p`, `p = 2^s`, `q = 2^k` -/
theorem and_mask (n M s k p q : Nat) (hp : p = 2 ^ s) (hq : q = 2 ^ k) (h1 : M / p = q - 1)
    (h2 : M % p = 0) : n &&& M = n / p % q * p := by
  subst hp hq
  have hd : (n &&& M) / 2 ^ s = n / 2 ^ s % 2 ^ k := by
    rw [Nat.and_div_two_pow, h1, Nat.and_two_pow_sub_one_eq_mod]
  have hm : (n &&& M) % 2 ^ s = 0 := by
    rw [Nat.and_mod_two_pow, h2, Nat.and_zero]
  have := Nat.div_add_mod (n &&& M) (2 ^ s)
  rw [hd, hm] at this
  rw [← this, Nat.mul_comm]; simp

/-- `2^i·a | b = 2^i·a + b` for `b < 2^i` -/
theorem or_disjoint (a b i p : Nat) (hp : p = 2 ^ i) (hb : b < p) : a * p ||| b = a * p + b := by
  subst hp; rw [Nat.mul_comm, Nat.two_pow_add_eq_or_of_lt hb]

/-! ## the Prelude operations on (casts of) naturals -/

theorem band_lit (n m : Nat) : band (n : Int) (no_index (OfNat.ofNat m)) = ((n &&& m : Nat) : Int) := by
  show band (n : Int) ((m : Nat) : Int) = _; simp [band]
theorem shr_lit (n m : Nat) : shr (n : Int) (no_index (OfNat.ofNat m)) = ((n / 2 ^ m : Nat) : Int) := by
  show shr (n : Int) ((m : Nat) : Int) = _; simp [shr, Nat.shiftRight_eq_div_pow]
theorem shl_lit (n m : Nat) : shl (n : Int) (no_index (OfNat.ofNat m)) = ((n * 2 ^ m : Nat) : Int) := by
  show shl (n : Int) ((m : Nat) : Int) = _; simp [shl, Nat.shiftLeft_eq]
theorem bor_nat (n m : Nat) : bor (n : Int) (m : Int) = ((n ||| m : Nat) : Int) := by
  simp [bor]
theorem u8_nat (n : Nat) : u8 (n : Int) = ((n % 256 : Nat) : Int) := by simp [u8]
theorem u32_nat (n : Nat) : u32 (n : Int) = ((n % 4294967296 : Nat) : Int) := by simp [u32]
theorem tdiv_nn (a b : Int) (h : 0 ≤ a) : Int.tdiv a b = a / b := Int.tdiv_eq_ediv_of_nonneg h
theorem tmod_nn (a b : Int) (h : 0 ≤ a) : Int.tmod a b = a % b := Int.tmod_eq_emod_of_nonneg h
theorem i8_nat (n : Nat) (h : n < 128) : i8 (n : Int) = (n : Int) := by unfold i8; omega

/-! ## the bit-field getters -/

section getters
variable (a b c d : Nat)

theorem d0 (w x y z : Int) : [w, x, y, z].getD 0 0 = w := rfl
theorem d1 (w x y z : Int) : [w, x, y, z].getD 1 0 = x := rfl
theorem d2 (w x y z : Int) : [w, x, y, z].getD 2 0 = y := rfl
theorem d3 (w x y z : Int) : [w, x, y, z].getD 3 0 = z := rfl

theorem group_get_pi : c_rdsparser_group_get_pi [(a : Int), b, c, d] = (a : Int) := by
  simp only [c_rdsparser_group_get_pi, d0]

theorem group_get_pty :
    c_rdsparser_group_get_pty [(a : Int), b, c, d] = ((b / 32 % 32 : Nat) : Int) := by
  have h := and_mask b 992 5 5 32 32 (by decide) (by decide) (by decide) (by decide)
  simp only [c_rdsparser_group_get_pty, d0, d1, d2, d3, band_lit, shr_lit, u8_nat, h]
  omega

theorem group_get_tp :
    c_rdsparser_group_get_tp [(a : Int), b, c, d] = ((b / 1024 % 2 : Nat) : Int) := by
  have h := and_mask b 1024 10 1 1024 2 (by decide) (by decide) (by decide) (by decide)
  simp only [c_rdsparser_group_get_tp, d0, d1, d2, d3, band_lit, shr_lit, u8_nat, h]
  omega

theorem group0_get_ta :
    c_rdsparser_group0_get_ta [(a : Int), b, c, d] = ((b / 16 % 2 : Nat) : Int) := by
  have h := and_mask b 16 4 1 16 2 (by decide) (by decide) (by decide) (by decide)
  have h2 : b / 16 % 2 = 0 ∨ b / 16 % 2 = 1 := by omega
  rcases h2 with h2 | h2 <;> (simp only [c_rdsparser_group0_get_ta, d0, d1, d2, d3, band_lit, shr_lit, b2i, h, h2]; decide)

theorem group0_get_ms :
    c_rdsparser_group0_get_ms [(a : Int), b, c, d] = ((b / 8 % 2 : Nat) : Int) := by
  have h := and_mask b 8 3 1 8 2 (by decide) (by decide) (by decide) (by decide)
  have h2 : b / 8 % 2 = 0 ∨ b / 8 % 2 = 1 := by omega
  rcases h2 with h2 | h2 <;> (simp only [c_rdsparser_group0_get_ms, d0, d1, d2, d3, band_lit, shr_lit, b2i, h, h2]; decide)

theorem group0_get_ps_pos :
    c_rdsparser_group0_get_ps_pos [(a : Int), b, c, d] = ((b % 4 : Nat) : Int) := by
  have h := and_mask b 3 0 2 1 4 (by decide) (by decide) (by decide) (by decide)
  simp only [c_rdsparser_group0_get_ps_pos, d0, d1, d2, d3, band_lit, u8_nat, h]
  omega

theorem group0a_get_af1 :
    c_rdsparser_group0a_get_af1 [(a : Int), b, c, d] = ((c / 256 % 256 : Nat) : Int) := by
  simp only [c_rdsparser_group0a_get_af1, d0, d1, d2, d3, shr_lit, u8_nat]

theorem group0a_get_af2 :
    c_rdsparser_group0a_get_af2 [(a : Int), b, c, d] = ((c % 256 : Nat) : Int) := by
  simp only [c_rdsparser_group0a_get_af2, d0, d1, d2, d3, u8_nat]

theorem group1a_get_variant :
    c_rdsparser_group1a_get_variant [(a : Int), b, c, d] = ((c / 4096 % 8 : Nat) : Int) := by
  have h := and_mask c 28672 12 3 4096 8 (by decide) (by decide) (by decide) (by decide)
  simp only [c_rdsparser_group1a_get_variant, d0, d1, d2, d3, band_lit, shr_lit, u8_nat, h]
  omega

theorem group1a0_get_ecc :
    c_rdsparser_group1a0_get_ecc [(a : Int), b, c, d] = ((c % 256 : Nat) : Int) := by
  simp only [c_rdsparser_group1a0_get_ecc, d0, d1, d2, d3, u8_nat]

theorem group2_get_rt_pos :
    c_rdsparser_group2_get_rt_pos [(a : Int), b, c, d] = ((b % 16 : Nat) : Int) := by
  have h := and_mask b 15 0 4 1 16 (by decide) (by decide) (by decide) (by decide)
  simp only [c_rdsparser_group2_get_rt_pos, d0, d1, d2, d3, band_lit, u8_nat, h]
  omega

theorem group2_get_rt_flag :
    c_rdsparser_group2_get_rt_flag [(a : Int), b, c, d] = ((b / 16 % 2 : Nat) : Int) := by
  have h := and_mask b 16 4 1 16 2 (by decide) (by decide) (by decide) (by decide)
  have h2 : b / 16 % 2 = 0 ∨ b / 16 % 2 = 1 := by omega
  rcases h2 with h2 | h2 <;> (simp only [c_rdsparser_group2_get_rt_flag, d0, d1, d2, d3, band_lit, shr_lit, b2i, h, h2]; decide)

theorem group10a_get_ptyn_pos :
    c_rdsparser_group10a_get_ptyn_pos [(a : Int), b, c, d] = ((b % 2 : Nat) : Int) := by
  simp only [c_rdsparser_group10a_get_ptyn_pos, d0, d1, d2, d3, band_lit, u8_nat, Nat.and_one_is_mod]
  omega

theorem parser_get_group :
    c_rdsparser_parser_get_group [(a : Int), b, c, d] = ((b / 4096 % 16 : Nat) : Int) := by
  have h := and_mask b 61440 12 4 4096 16 (by decide) (by decide) (by decide) (by decide)
  simp only [c_rdsparser_parser_get_group, d0, d1, d2, d3, band_lit, shr_lit, u8_nat, h]
  omega

theorem parser_get_flag :
    c_rdsparser_parser_get_flag [(a : Int), b, c, d] = ((b / 2048 % 2 : Nat) : Int) := by
  have h := and_mask b 2048 11 1 2048 2 (by decide) (by decide) (by decide) (by decide)
  simp only [c_rdsparser_parser_get_flag, d0, d1, d2, d3, band_lit, shr_lit, u32_nat, h]
  omega

/-- `Group.type` / `Group.versionB` of the model are these two getters -/
theorem parser_get_group_model (g : Group) :
    c_rdsparser_parser_get_group [(g.a : Int), g.b, g.c, g.d] = (g.type : Int) :=
  parser_get_group g.a g.b g.c g.d

theorem parser_get_flag_model (g : Group) :
    (c_rdsparser_parser_get_flag [(g.a : Int), g.b, g.c, g.d] == 1) = g.versionB := by
  rw [parser_get_flag]
  have h2 : g.b / 2048 % 2 = 0 ∨ g.b / 2048 % 2 = 1 := by omega
  rcases h2 with h2 | h2 <;> simp [Group.versionB, h2]

theorem group4a_get_minute :
    c_rdsparser_group4a_get_minute [(a : Int), b, c, d] = ((d / 64 % 64 : Nat) : Int) := by
  have h := and_mask d 4032 6 6 64 64 (by decide) (by decide) (by decide) (by decide)
  -- the same field written shift-then-mask: `(d >> 6) & 0x3F`
  have h' : d / 2 ^ 6 &&& 63 = d / 64 % 64 := Nat.and_two_pow_sub_one_eq_mod (d / 2 ^ 6) 6
  simp only [c_rdsparser_group4a_get_minute, d0, d1, d2, d3, band_lit, shr_lit, u8_nat, h, h']
  omega

theorem group4a_get_hour (hd : d < 65536) :
    c_rdsparser_group4a_get_hour [(a : Int), b, c, d] =
      (((c % 2) * 16 + d / 4096 % 16 : Nat) : Int) := by
  have h1 := and_mask d 61440 12 4 4096 16 (by decide) (by decide) (by decide) (by decide)
  have h2 := or_disjoint (c % 2) (d / 4096 % 16) 4 16 (by decide) (by omega)
  simp only [c_rdsparser_group4a_get_hour, d0, d1, d2, d3, band_lit, shr_lit, shl_lit, bor_nat, u8_nat, h1]
  have e1 : (c &&& 1) * 2 ^ 4 % 256 = c % 2 * 16 := by rw [Nat.and_one_is_mod]; omega
  have e2 : d / 4096 % 16 * 4096 / 2 ^ 12 = d / 4096 % 16 := by omega
  -- block D is a uint16_t, so the mask before the shift may be omitted (`d >> 12`)
  have e2' : d / 2 ^ 12 = d / 4096 % 16 := by omega
  first
    | (rw [e1, e2, h2]; congr 1; omega)
    | (rw [e1, e2', h2]; congr 1; omega)

theorem group4a_get_mjd (hc : c < 65536) :
    c_rdsparser_group4a_get_mjd [(a : Int), b, c, d] =
      (((b % 4) * 32768 + c / 2 : Nat) : Int) := by
  have h1 := and_mask b 3 0 2 1 4 (by decide) (by decide) (by decide) (by decide)
  have h2 := or_disjoint (b % 4) (c / 2) 15 32768 (by decide) (by omega)
  simp only [c_rdsparser_group4a_get_mjd, d0, d1, d2, d3, band_lit, shr_lit, shl_lit, bor_nat, u32_nat, h1]
  have e1 : b / 1 % 4 * 1 % 4294967296 * 2 ^ 15 % 4294967296 = b % 4 * 32768 := by omega
  have e2 : c / 2 ^ 1 % 4294967296 = c / 2 := by omega
  rw [e1, e2, h2]

theorem group4a_get_time_offset :
    c_rdsparser_group4a_get_time_offset [(a : Int), b, c, d] =
      (if d / 32 % 2 = 1 then -((d % 32 : Nat) : Int) else ((d % 32 : Nat) : Int)) := by
  have h1 := and_mask d 31 0 5 1 32 (by decide) (by decide) (by decide) (by decide)
  have h2 := and_mask d 32 5 1 32 2 (by decide) (by decide) (by decide) (by decide)
  have e1 : d / 1 % 32 * 1 = d % 32 := by omega
  have h3 : d / 32 % 2 = 0 ∨ d / 32 % 2 = 1 := by omega
  simp only [c_rdsparser_group4a_get_time_offset, d0, d1, d2, d3, band_lit, h1, h2, e1]
  rw [i8_nat (d % 32) (by omega)]
  rcases h3 with h3 | h3 <;> simp [h3] <;> unfold i8 <;> omega

/-- the four clock-time fields together are the model's `ctFields` -/
theorem ctFields_eq (g : Group) (hc : g.c < 65536) (hd : g.d < 65536) :
    let data := [(g.a : Int), g.b, g.c, g.d]
    ((c_rdsparser_group4a_get_mjd data, c_rdsparser_group4a_get_hour data,
      c_rdsparser_group4a_get_minute data, c_rdsparser_group4a_get_time_offset data) :
        Int × Int × Int × Int) =
      (((ctFields g).1 : Int), ((ctFields g).2.1 : Int), ((ctFields g).2.2.1 : Int), (ctFields g).2.2.2) := by
  simp only [group4a_get_mjd _ _ _ _ hc, group4a_get_hour _ _ _ _ hd, group4a_get_minute,
    group4a_get_time_offset, ctFields]

end getters

/-! ## `rdsparser_string_calculate_error` -/

/-- The C function computes `2*ei + 3*ed` in `uint8_t`; it is the model's `calcError` exactly
when that sum does not wrap. -/
theorem calculate_error_iff (ei ed : Nat) :
    c_rdsparser_string_calculate_error ei ed = (calcError ei ed : Int) ↔ 2 * ei + 3 * ed < 256 := by
  unfold c_rdsparser_string_calculate_error calcError u8
  have hn : 2 * (ei : Int) + 3 * (ed : Int) = ((2 * ei + 3 * ed : Nat) : Int) := by omega
  rw [hn]
  generalize 2 * ei + 3 * ed = n
  by_cases h0 : n = 0
  · simp [h0]
  · by_cases hw : (n : Int) % 256 = 0
    · simp only [hw, bne_self_eq_false, Bool.false_eq_true, if_false, h0]
      constructor <;> intro _ <;> omega
    · simp [hw, h0]
      constructor <;> intro _ <;> omega

theorem calculate_error_eq (ei ed : Nat) (h : 2 * ei + 3 * ed < 256) :
    c_rdsparser_string_calculate_error ei ed = (calcError ei ed : Int) :=
  (calculate_error_iff ei ed).2 h

/-- on the block error codes 0..3 that the library receives -/
theorem calculate_error_codes (ei ed : Nat) (hi : ei ≤ 3) (hd : ed ≤ 3) :
    c_rdsparser_string_calculate_error ei ed = (calcError ei ed : Int) :=
  calculate_error_eq ei ed (by omega)

/-! ## `rdsparser_af_get` / `rdsparser_af_set` -/

/-- bit `v` (an AF code) of the 26-byte MSB-first bitmap -/
def bitOf (bytes : List Int) (v : Nat) : Bool := (bytes.getD (v / 8) 0).toNat.testBit (7 - v % 8)

/-- the bitmap as the model's list of 208 booleans indexed by AF code -/
def bitsOf (bytes : List Int) : List Bool := (List.range 208).map (bitOf bytes)

theorem bitsOf_length (bytes : List Int) : (bitsOf bytes).length = 208 := by simp [bitsOf]

theorem bitsOf_getD (bytes : List Int) (v : Nat) (h : v < 208) :
    (bitsOf bytes).getD v false = bitOf bytes v := by
  simp [bitsOf, List.getD_eq_getElem?_getD, List.getElem?_map, List.getElem?_range h]

theorem and_two_pow_ne_zero (x i : Nat) : (x &&& 2 ^ i != 0) = x.testBit i := by
  cases h : x.testBit i
  · have : x &&& 2 ^ i = 0 := by
      apply Nat.eq_of_testBit_eq; intro j
      simp only [Nat.testBit_and, Nat.testBit_two_pow, Nat.zero_testBit]
      by_cases hj : i = j
      · subst hj; simp [h]
      · simp [hj]
    simp [this]
  · have : (x &&& 2 ^ i).testBit i = true := by simp [Nat.testBit_and, h]
    have hne : x &&& 2 ^ i ≠ 0 := by
      intro h0; rw [h0] at this; simp at this
    simp [hne]

theorem shr128 (k : Nat) (hk : k < 8) : 128 >>> k = 2 ^ (7 - k) := by
  have : k = 0 ∨ k = 1 ∨ k = 2 ∨ k = 3 ∨ k = 4 ∨ k = 5 ∨ k = 6 ∨ k = 7 := by omega
  rcases this with h | h | h | h | h | h | h | h <;> subst h <;> decide

theorem af_pos (v : Nat) (hv : v ≤ 204) : u8 (Int.tdiv (v : Int) 8) = ((v / 8 : Nat) : Int) := by
  rw [tdiv_nn _ _ (by omega)]; unfold u8; omega
theorem af_bit (v : Nat) : u8 (Int.tmod (v : Int) 8) = ((v % 8 : Nat) : Int) := by
  rw [tmod_nn _ _ (by omega)]; unfold u8; omega

/-- the same two quantities written with shift and mask (`value >> 3`, `value & 7`) -/
theorem af_pos_shr (v : Nat) (hv : v ≤ 204) : u8 (shr (v : Int) 3) = ((v / 8 : Nat) : Int) := by
  rw [shr_lit, u8_nat]
  have h : v / 2 ^ 3 = v / 8 := rfl
  rw [h]; omega
theorem af_bit_band (v : Nat) : u8 (band (v : Int) 7) = ((v % 8 : Nat) : Int) := by
  have h : v &&& 7 = v % 8 := Nat.and_two_pow_sub_one_eq_mod v 3
  rw [band_lit, u8_nat, h]; omega

theorem shr128_int (k : Nat) (hk : k < 8) : shr 128 (k : Int) = ((2 ^ (7 - k) : Nat) : Int) := by
  show shr ((128 : Nat) : Int) (k : Int) = _
  rw [shr_natCast, shr128 k hk]

theorem band_natR (x : Int) (n : Nat) : band x (n : Int) = ((x.toNat &&& n : Nat) : Int) := by
  simp [band]

theorem natCast_bne_zero (m : Nat) : ((m : Int) != 0) = (m != 0) := by
  cases m
  · simp
  · simp; omega

theorem af_valid_int (v : Nat) :
    (decide (1 ≤ (v : Int)) && decide ((v : Int) ≤ 204)) = afValid v := by
  have h1 : decide (1 ≤ (v : Int)) = decide (1 ≤ v) := by apply decide_eq_decide.2; omega
  have h2 : decide ((v : Int) ≤ 204) = decide (v ≤ 204) := by apply decide_eq_decide.2; omega
  rw [h1, h2]; rfl

/-- `rdsparser_af_get` is the model's `afGet` on the bit view of the bitmap -/
theorem af_get_eq (af : C_rdsparser_af) (v : Nat) :
    c_rdsparser_af_get af v = b2i (afGet (bitsOf af.buffer) v) := by
  unfold c_rdsparser_af_get afGet
  rw [af_valid_int]
  cases hval : afValid v
  · simp
  · have hv : 1 ≤ v ∧ v ≤ 204 := by simpa [afValid] using hval
    simp only [if_true, Bool.true_and, af_pos v hv.2, af_bit, af_pos_shr v hv.2, af_bit_band, getI_natCast,
      shr128_int (v % 8) (by omega), band_natR, natCast_bne_zero, and_two_pow_ne_zero, bitsOf_getD _ v (by omega), bitOf]

theorem bor_natR (x : Int) (n : Nat) : bor x (n : Int) = ((x.toNat ||| n : Nat) : Int) := by
  simp [bor]

/-- the byte `rdsparser_af_set` stores -/
def setByte (x : Int) (k : Nat) : Int := (((x.toNat ||| 2 ^ (7 - k)) % 256 : Nat) : Int)

theorem setByte_testBit (x : Int) (k j : Nat) (hj : j < 8) :
    (setByte x k).toNat.testBit j = (x.toNat.testBit j || decide (7 - k = j)) := by
  unfold setByte
  rw [Int.toNat_natCast]
  show ((x.toNat ||| 2 ^ (7 - k)) % 2 ^ 8).testBit j = _
  rw [Nat.testBit_mod_two_pow, Nat.testBit_or, Nat.testBit_two_pow]
  simp [hj]

theorem bitOf_set (buf : List Int) (v i : Nat) (hv : v / 8 < buf.length) :
    bitOf (buf.set (v / 8) (setByte (buf.getD (v / 8) 0) (v % 8))) i =
      (if v = i then true else bitOf buf i) := by
  unfold bitOf
  by_cases hb : v / 8 = i / 8
  · have e : (buf.set (v / 8) (setByte (buf.getD (v / 8) 0) (v % 8))).getD (i / 8) 0 =
        setByte (buf.getD (v / 8) 0) (v % 8) := by
      rw [← hb]; simp [List.getD_eq_getElem?_getD, hv]
    rw [e, setByte_testBit _ _ _ (by omega), hb]
    by_cases hvi : v = i
    · subst hvi; simp
    · have : ¬ (7 - v % 8 = 7 - i % 8) := by omega
      simp [hvi, this]
  · have e : (buf.set (v / 8) (setByte (buf.getD (v / 8) 0) (v % 8))).getD (i / 8) 0 =
        buf.getD (i / 8) 0 := by
      simp [List.getD_eq_getElem?_getD, hb]
    have hvi : ¬ v = i := by intro h; subst h; exact hb rfl
    rw [e]; simp [hvi]

theorem bitsOf_set (buf : List Int) (v : Nat) (hv : v / 8 < buf.length) :
    bitsOf (buf.set (v / 8) (setByte (buf.getD (v / 8) 0) (v % 8))) = (bitsOf buf).set v true := by
  apply List.ext_getElem
  · simp [bitsOf]
  · intro i h1 h2
    have hi : i < 208 := by simpa [bitsOf] using h1
    simp only [bitsOf, List.getElem_map, List.getElem_range, List.getElem_set, bitOf_set buf v i hv]

/-- `rdsparser_af_set` is the model's `afSet` on the bit view; the bitmap keeps its 26 bytes -/
theorem af_set_eq (af : C_rdsparser_af) (v : Nat) (hlen : af.buffer.length = 26) :
    (c_rdsparser_af_set af v).1 = b2i (afSet (bitsOf af.buffer) v).2 ∧
    bitsOf (c_rdsparser_af_set af v).2.buffer = (afSet (bitsOf af.buffer) v).1 ∧
    (c_rdsparser_af_set af v).2.buffer.length = 26 := by
  unfold c_rdsparser_af_set afSet
  rw [af_valid_int]
  cases hval : afValid v
  · simp [hlen]
  · have hv : 1 ≤ v ∧ v ≤ 204 := by simpa [afValid] using hval
    have hbyte : u8 (bor (getI af.buffer ((v / 8 : Nat) : Int)) (shr 128 ((v % 8 : Nat) : Int))) =
        setByte (af.buffer.getD (v / 8) 0) (v % 8) := by
      rw [shr128_int (v % 8) (by omega), bor_natR, getI_natCast]
      unfold u8 setByte; omega
    have hbyte' : u8 (bor (getI af.buffer ((v / 8 : Nat) : Int)) (((2 ^ (7 - v % 8) : Nat) : Int))) =
        setByte (af.buffer.getD (v / 8) 0) (v % 8) := by
      rw [bor_natR, getI_natCast]
      unfold u8 setByte; omega
    have hu : u8 (((2 ^ (7 - v % 8) : Nat) : Int)) = ((2 ^ (7 - v % 8) : Nat) : Int) := by
      rw [u8_nat]
      have h7 : 2 ^ (7 - v % 8) ≤ 2 ^ 7 := Nat.pow_le_pow_right (by omega) (by omega)
      have h128 : (2 : Nat) ^ 7 = 128 := rfl
      generalize 2 ^ (7 - v % 8) = w at h7 ⊢
      omega
    simp only [if_true, af_pos v hv.2, af_bit, af_pos_shr v hv.2, af_bit_band, shr128_int (v % 8) (by omega), hu, hbyte', hbyte, listSet_natCast,
      bitsOf_set af.buffer v (by omega), List.length_set, hlen, b2i_true, and_self]

/-! ## `rdsparser_ct_init` -/

/-- month/day/year from (era, year of era, day of year) as `ct.c` computes them -/
def cTail (ct : C_rdsparser_ct) (era yoe doy : Int) : C_rdsparser_ct :=
    let mp : Int := Int.tdiv (5 * doy + 2) 153
    let ct : C_rdsparser_ct := { ct with day := u8 (doy - Int.tdiv (153 * mp + 2) 5 + 1) }
    let ct : C_rdsparser_ct := { ct with month := u8 (if decide (mp < 10) then mp + 3 else mp - 9) }
    let ct : C_rdsparser_ct := { ct with year := u16 (yoe + era * 400 + (if decide (ct.month ≤ 2) then 1 else 0)) }
    ct

theorem cTail_eq (ct : C_rdsparser_ct) (era yoe doy : Int) (he : 0 ≤ era ∧ era ≤ 100)
    (hy : 0 ≤ yoe ∧ yoe < 400) (hd : 0 ≤ doy ∧ doy ≤ 366) :
    cTail ct era yoe doy =
      let mp := (5 * doy + 2) / 153
      let m := if mp < 10 then mp + 3 else mp - 9
      { ct with year := if m ≤ 2 then yoe + era * 400 + 1 else yoe + era * 400,
                month := m, day := doy - (153 * mp + 2) / 5 + 1 } := by
  unfold cTail
  have h5 : 0 ≤ 5 * doy + 2 := by omega
  simp only [tdiv_nn _ _ h5]
  generalize hmp : (5 * doy + 2) / 153 = mp
  have hmp0 : 0 ≤ mp ∧ mp ≤ 11 := by omega
  have h6 : 0 ≤ 153 * mp + 2 := by omega
  simp only [tdiv_nn _ _ h6]
  have hday : u8 (doy - (153 * mp + 2) / 5 + 1) = doy - (153 * mp + 2) / 5 + 1 := by
    apply u8_of_range <;> omega
  by_cases hlt : mp < 10
  · have hm : u8 (mp + 3) = mp + 3 := by apply u8_of_range <;> omega
    by_cases h2 : mp + 3 ≤ 2
    · omega
    · have hyr : u16 (yoe + era * 400) = yoe + era * 400 := by
        apply u16_of_range <;> omega
      simp [hlt, hm, h2, hday, hyr]
  · have hm : u8 (mp - 9) = mp - 9 := by apply u8_of_range <;> omega
    have h2 : mp - 9 ≤ 2 := by omega
    have hyr : u16 (yoe + era * 400 + 1) = yoe + era * 400 + 1 := by
      apply u16_of_range <;> omega
    simp [hlt, hm, h2, hday, hyr]

/-- the date part of `rdsparser_ct_init` (from `days += 678881` on) -/
def cDate (ct : C_rdsparser_ct) (days : Int) : C_rdsparser_ct :=
    let days : Int := days + 678881
    let era : Int := Int.tdiv days 146097
    let doe : Int := Int.tmod days 146097
    let yoe : Int := Int.tdiv (doe - Int.tdiv doe 1460 + Int.tdiv doe 36524 - Int.tdiv doe 146096) 365
    let doy : Int := doe - (365 * yoe + Int.tdiv yoe 4 - Int.tdiv yoe 100)
    cTail ct era yoe doy

theorem cDate_eq (ct : C_rdsparser_ct) (days : Int) (h0 : -1 ≤ days) (h1 : days ≤ 131072) :
    cDate ct days = { ct with year := (civilFromDays (days + 678881)).1,
                              month := (civilFromDays (days + 678881)).2.1,
                              day := (civilFromDays (days + 678881)).2.2 } := by
  unfold cDate civilFromDays
  have hz : 0 ≤ days + 678881 := by omega
  have hz1 : days + 678881 < 1000000 := by omega
  generalize days + 678881 = z at hz hz1 ⊢
  have hdoe0 : 0 ≤ z % 146097 := Int.emod_nonneg _ (by omega)
  have hdoe1 : z % 146097 < 146097 := Int.emod_lt_of_pos _ (by omega)
  have hera : 0 ≤ z / 146097 ∧ z / 146097 ≤ 100 := by omega
  have hb := C12.yoeI_bracket (z % 146097) hdoe0 hdoe1
  simp only [C12.yoeI, C12.fnI, C12.ysI] at hb
  simp only [tdiv_nn _ _ hz, tmod_nn _ _ hz, tdiv_nn _ _ hdoe0]
  generalize z % 146097 = doe at hdoe0 hdoe1 hb ⊢
  have hf : 0 ≤ doe - doe / 1460 + doe / 36524 - doe / 146096 := by omega
  simp only [tdiv_nn _ _ hf]
  obtain ⟨hy0, hy1, hy2, hy3⟩ := hb
  have hy3' : doe < 365 * ((doe - doe / 1460 + doe / 36524 - doe / 146096) / 365 + 1) +
      ((doe - doe / 1460 + doe / 36524 - doe / 146096) / 365 + 1) / 4 -
      ((doe - doe / 1460 + doe / 36524 - doe / 146096) / 365 + 1) / 100 + 1 := by
    by_cases hc : (doe - doe / 1460 + doe / 36524 - doe / 146096) / 365 = 399
    · simp only [hc] at hy3 ⊢; simp at hy3; omega
    · simp only [hc, if_false] at hy3; omega
  clear hy3
  generalize (doe - doe / 1460 + doe / 36524 - doe / 146096) / 365 = yoe at hy0 hy1 hy2 hy3' ⊢
  simp only [tdiv_nn _ _ hy0]
  have hdoy0 : 0 ≤ doe - (365 * yoe + yoe / 4 - yoe / 100) := by omega
  have hdoy1 : doe - (365 * yoe + yoe / 4 - yoe / 100) ≤ 366 := by omega
  rw [cTail_eq ct _ yoe _ hera ⟨hy0, hy1⟩ ⟨hdoy0, hdoy1⟩]

/-- the time-of-day part of `rdsparser_ct_init`: (hour, minute, days) -/
def cTime (hour minute offset days : Int) : Int × Int × Int :=
    let minute : Int := i8 (minute + Int.tmod offset 2 * 30)
    let t2 :=
      if decide (60 ≤ minute) then
        let hour : Int := i8 (hour + 1)
        let minute : Int := i8 (Int.tmod minute 60)
        (hour, minute)
      else
        let t1 :=
          if decide (minute < 0) then
            let hour : Int := i8 (hour - 1)
            let minute : Int := i8 (60 + minute)
            (hour, minute)
          else
            (hour, minute)
        let hour : Int := t1.1
        let minute : Int := t1.2
        (hour, minute)
    let hour : Int := t2.1
    let minute : Int := t2.2
    let hour : Int := i8 (hour + Int.tdiv offset 2)
    let t4 :=
      if decide (24 ≤ hour) then
        let days : Int := days + 1
        let hour : Int := i8 (Int.tmod hour 24)
        (hour, days)
      else
        let t3 :=
          if decide (hour < 0) then
            let days : Int := days - 1
            let hour : Int := i8 (24 + hour)
            (hour, days)
          else
            (hour, days)
        let hour : Int := t3.1
        let days : Int := t3.2
        (hour, days)
    (t4.1, minute, t4.2)

theorem ct_init_shape (ct : C_rdsparser_ct) (mjd hour minute offset : Int) :
    c_rdsparser_ct_init ct mjd hour minute offset =
      if decide (24 ≤ hour) || decide (60 ≤ minute) then ((0 : Int), ct)
      else
        let t := cTime hour minute offset (i32 mjd)
        let ct := cDate ct t.2.2
        ((1 : Int), { ct with hour := u8 t.1, minute := u8 t.2.1, offset := offset }) := by
  rfl

theorem cTime_eq (hour minute : Nat) (off days : Int) (hh : hour < 24) (hm : minute < 60)
    (ho : -31 ≤ off ∧ off ≤ 31) :
    cTime hour minute off days =
      (let m0 : Int := minute + (Int.tmod off 2) * 30
       let h0 : Int := if 60 ≤ m0 then hour + 1 else if m0 < 0 then (hour : Int) - 1 else hour
       let m1 : Int := if 60 ≤ m0 then m0 - 60 else if m0 < 0 then 60 + m0 else m0
       let h1 : Int := h0 + Int.tdiv off 2
       let day : Int := if 24 ≤ h1 then days + 1 else if h1 < 0 then days - 1 else days
       let h2 : Int := if 24 ≤ h1 then h1 - 24 else if h1 < 0 then 24 + h1 else h1
       (h2, m1, day)) := by
  have e := Int.tmod_add_tdiv_mul off 2
  have e1 := Int.tmod_lt_of_pos off (b := 2) (by omega)
  have e2 := Int.lt_tmod_of_pos off (b := 2) (by omega)
  unfold cTime
  generalize Int.tmod off 2 = tm at e e1 e2 ⊢
  generalize Int.tdiv off 2 = td at e ⊢
  have hm0 : i8 ((minute : Int) + tm * 30) = minute + tm * 30 := by apply i8_of_range <;> omega
  simp only [hm0]
  generalize hM : (minute : Int) + tm * 30 = m0
  have hM0 : -30 ≤ m0 ∧ m0 ≤ 89 := by omega
  -- the minute/hour carry
  have step1 : ∀ (h0 m1 : Int),
      h0 = (if 60 ≤ m0 then (hour : Int) + 1 else if m0 < 0 then (hour : Int) - 1 else hour) →
      m1 = (if 60 ≤ m0 then m0 - 60 else if m0 < 0 then 60 + m0 else m0) →
      (if decide (60 ≤ m0) then (i8 ((hour : Int) + 1), i8 (Int.tmod m0 60))
       else
        ((if decide (m0 < 0) then (i8 ((hour : Int) - 1), i8 (60 + m0)) else ((hour : Int), m0)).1,
         (if decide (m0 < 0) then (i8 ((hour : Int) - 1), i8 (60 + m0)) else ((hour : Int), m0)).2)) = (h0, m1) := by
    intro h0 m1 eh em
    by_cases c1 : 60 ≤ m0
    · have a1 : i8 ((hour : Int) + 1) = hour + 1 := by apply i8_of_range <;> omega
      have a2 : Int.tmod m0 60 = m0 - 60 := by rw [tmod_nn _ _ (by omega)]; omega
      have a3 : i8 (m0 - 60) = m0 - 60 := by apply i8_of_range <;> omega
      simp [c1, a1, a2, a3] at eh em ⊢; exact ⟨eh.symm, em.symm⟩
    · by_cases c2 : m0 < 0
      · have a1 : i8 ((hour : Int) - 1) = hour - 1 := by apply i8_of_range <;> omega
        have a3 : i8 (60 + m0) = 60 + m0 := by apply i8_of_range <;> omega
        simp [c1, c2, a1, a3] at eh em ⊢; exact ⟨eh.symm, em.symm⟩
      · simp [c1, c2] at eh em ⊢; exact ⟨eh.symm, em.symm⟩
  rw [step1 _ _ rfl rfl]
  simp only []
  generalize hH : (if 60 ≤ m0 then (hour : Int) + 1 else if m0 < 0 then (hour : Int) - 1 else hour) = h0
  have hH0 : -1 ≤ h0 ∧ h0 ≤ 24 := by
    rw [← hH]; split
    · omega
    · split <;> omega
  have a0 : i8 (h0 + td) = h0 + td := by apply i8_of_range <;> omega
  simp only [a0]
  generalize hH1 : h0 + td = h1
  have hH10 : -17 ≤ h1 ∧ h1 ≤ 40 := by omega
  by_cases c1 : 24 ≤ h1
  · have a2 : Int.tmod h1 24 = h1 - 24 := by rw [tmod_nn _ _ (by omega)]; omega
    have a3 : i8 (h1 - 24) = h1 - 24 := by apply i8_of_range <;> omega
    simp [c1, a2, a3]
  · by_cases c2 : h1 < 0
    · have a3 : i8 (24 + h1) = 24 + h1 := by apply i8_of_range <;> omega
      simp [c1, c2, a3]
    · simp [c1, c2]

theorem ct_init_eq (ct : C_rdsparser_ct) (mjd hour minute : Nat) (off : Int)
    (hh : hour < 32) (hm : minute < 64) (ho : -31 ≤ off ∧ off ≤ 31) (hj : mjd < 131072) :
    c_rdsparser_ct_init ct mjd hour minute off =
      match ctInit mjd hour minute off with
      | none => ((0 : Int), ct)
      | some v => ((1 : Int), ⟨v.year, v.month, v.day, v.hour, v.minute, off⟩) := by
  rw [ct_init_shape]
  by_cases hr : 24 ≤ hour ∨ 60 ≤ minute
  · have h1 : (decide (24 ≤ (hour : Int)) || decide (60 ≤ (minute : Int))) = true := by
      rcases hr with h | h <;> simp <;> omega
    have h2 : (decide (24 ≤ hour) || decide (60 ≤ minute)) = true := by
      rcases hr with h | h <;> simp [h]
    simp only [h1, if_true, ctInit, h2]
  · have hh' : hour < 24 := by omega
    have hm' : minute < 60 := by omega
    have h1 : (decide (24 ≤ (hour : Int)) || decide (60 ≤ (minute : Int))) = false := by
      simp; omega
    have h2 : (decide (24 ≤ hour) || decide (60 ≤ minute)) = false := by
      simp; omega
    have hi : i32 (mjd : Int) = mjd := by apply i32_of_range <;> omega
    simp only [h1, ctInit, h2, hi, cTime_eq hour minute off mjd hh' hm' ho]
    have e := Int.tmod_add_tdiv_mul off 2
    have e1 := Int.tmod_lt_of_pos off (b := 2) (by omega)
    have e2 := Int.lt_tmod_of_pos off (b := 2) (by omega)
    generalize Int.tmod off 2 = tm at e e1 e2 ⊢
    generalize Int.tdiv off 2 = td at e ⊢
    generalize hM : (minute : Int) + tm * 30 = m0
    have hM0 : -30 ≤ m0 ∧ m0 ≤ 89 := by omega
    generalize hH : (if 60 ≤ m0 then (hour : Int) + 1 else if m0 < 0 then (hour : Int) - 1 else hour) = h0
    have hH0 : -1 ≤ h0 ∧ h0 ≤ 24 := by
      rw [← hH]; split
      · omega
      · split <;> omega
    generalize hM1 : (if 60 ≤ m0 then m0 - 60 else if m0 < 0 then 60 + m0 else m0) = m1
    have hM10 : 0 ≤ m1 ∧ m1 < 60 := by
      rw [← hM1]; split
      · omega
      · split <;> omega
    generalize hH1 : h0 + td = h1
    have hH10 : -17 ≤ h1 ∧ h1 ≤ 40 := by omega
    generalize hD : (if 24 ≤ h1 then (mjd : Int) + 1 else if h1 < 0 then (mjd : Int) - 1 else mjd) = day
    have hD0 : -1 ≤ day ∧ day ≤ 131072 := by
      rw [← hD]; split
      · omega
      · split <;> omega
    generalize hH2 : (if 24 ≤ h1 then h1 - 24 else if h1 < 0 then 24 + h1 else h1) = h2
    have hH20 : 0 ≤ h2 ∧ h2 < 24 := by
      rw [← hH2]; split
      · omega
      · split <;> omega
    have a1 : u8 h2 = h2 := by apply u8_of_range <;> omega
    have a2 : u8 m1 = m1 := by apply u8_of_range <;> omega
    simp [cDate_eq ct day hD0.1 hD0.2, a1, a2]

/-- what the `rdsparser_ct_get_*` getters show of an accepted clock time is the model's `CtVal` -/
theorem ct_init_getters (ct : C_rdsparser_ct) (mjd hour minute : Nat) (off : Int)
    (hh : hour < 32) (hm : minute < 64) (ho : -31 ≤ off ∧ off ≤ 31) (hj : mjd < 131072)
    (v : CtVal) (hv : ctInit mjd hour minute off = some v) :
    let r := c_rdsparser_ct_init ct mjd hour minute off
    r.1 = 1 ∧ c_rdsparser_ct_get_year r.2 = v.year ∧ c_rdsparser_ct_get_month r.2 = v.month ∧
    c_rdsparser_ct_get_day r.2 = v.day ∧ c_rdsparser_ct_get_hour r.2 = v.hour ∧
    c_rdsparser_ct_get_minute r.2 = v.minute ∧ c_rdsparser_ct_get_offset r.2 = v.offsetMin := by
  have h := ct_init_eq ct mjd hour minute off hh hm ho hj
  rw [hv] at h
  have ho' : v.offsetMin = off * 30 := by
    unfold ctInit at hv
    split at hv
    · cases hv
    · cases hv; rfl
  simp only [h, c_rdsparser_ct_get_year, c_rdsparser_ct_get_month, c_rdsparser_ct_get_day,
    c_rdsparser_ct_get_hour, c_rdsparser_ct_get_minute, c_rdsparser_ct_get_offset, ho']
  refine ⟨trivial, trivial, trivial, trivial, trivial, trivial, ?_⟩
  apply i16_of_range <;> omega

end RDS.C.TransBits

#print axioms RDS.C.TransBits.group_get_pi
#print axioms RDS.C.TransBits.group_get_pty
#print axioms RDS.C.TransBits.group_get_tp
#print axioms RDS.C.TransBits.group0_get_ta
#print axioms RDS.C.TransBits.group0_get_ms
#print axioms RDS.C.TransBits.group0_get_ps_pos
#print axioms RDS.C.TransBits.group0a_get_af1
#print axioms RDS.C.TransBits.group0a_get_af2
#print axioms RDS.C.TransBits.group1a_get_variant
#print axioms RDS.C.TransBits.group1a0_get_ecc
#print axioms RDS.C.TransBits.group2_get_rt_pos
#print axioms RDS.C.TransBits.group2_get_rt_flag
#print axioms RDS.C.TransBits.group10a_get_ptyn_pos
#print axioms RDS.C.TransBits.parser_get_group
#print axioms RDS.C.TransBits.parser_get_flag
#print axioms RDS.C.TransBits.parser_get_group_model
#print axioms RDS.C.TransBits.parser_get_flag_model
#print axioms RDS.C.TransBits.group4a_get_minute
#print axioms RDS.C.TransBits.group4a_get_hour
#print axioms RDS.C.TransBits.group4a_get_mjd
#print axioms RDS.C.TransBits.group4a_get_time_offset
#print axioms RDS.C.TransBits.ctFields_eq
#print axioms RDS.C.TransBits.calculate_error_iff
#print axioms RDS.C.TransBits.calculate_error_eq
#print axioms RDS.C.TransBits.calculate_error_codes
#print axioms RDS.C.TransBits.af_get_eq
#print axioms RDS.C.TransBits.af_set_eq
#print axioms RDS.C.TransBits.cDate_eq
#print axioms RDS.C.TransBits.ct_init_shape
#print axioms RDS.C.TransBits.cTime_eq
#print axioms RDS.C.TransBits.ct_init_eq
#print axioms RDS.C.TransBits.ct_init_getters
