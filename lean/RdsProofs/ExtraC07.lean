import RdsModel
import RdsSpec.Monitors
import RdsSpec.Statements
import RdsProofs.Frame
import RdsProofs.CellsDispatch
/-!
# RdsProofs.ExtraC07 — helper lemmas for C07 over histories (levels are antitone under progressive correction)
-/
namespace RDS

/-- one byte: with the progressive flag on, no level increases -/
theorem ex_updateSingle_lvl (cfg : Cfg) (t : Text) (b ei ed pos : Nat) (i : Nat) :
    ((updateSingle cfg t b ei ed pos true).1.getD i blank).lvl ≤ (t.getD i blank).lvl := by
  unfold updateSingle
  cases hc : t[pos]? with
  | none => exact Nat.le_refl _
  | some cell =>
    simp only [Bool.true_and]
    split
    · exact Nat.le_refl _
    · rename_i hlt
      split
      · exact Nat.le_refl _
      · split
        · exact Nat.le_refl _
        · split
          · exact Nat.le_refl _
          · split
            · exact Nat.le_refl _
            · show ((t.set pos ⟨conv cfg b, calcError ei ed⟩).getD i blank).lvl ≤ (t.getD i blank).lvl
              rw [List.getD_eq_getElem?_getD, List.getD_eq_getElem?_getD, List.getElem?_set]
              split
              · rename_i hpi
                subst hpi
                have hlen : pos < t.length := (List.getElem?_eq_some_iff.mp hc).1
                rw [hc, if_pos hlen]
                simp only [decide_eq_true_eq] at hlt
                show calcError ei ed ≤ cell.lvl
                omega
              · exact Nat.le_refl _

theorem ex_updateString_lvl (cfg : Cfg) (t : Text) (w ei ed pos : Nat) (i : Nat) :
    ((updateString cfg t w ei ed pos true).1.getD i blank).lvl ≤ (t.getD i blank).lvl := by
  unfold updateString
  exact Nat.le_trans (ex_updateSingle_lvl _ _ _ _ _ _ _) (ex_updateSingle_lvl _ _ _ _ _ _ _)

theorem ex_parserUpdate_lvl (cfg : Cfg) (set : Settings) (t : Text) (id : TextId) (w eb ex pos : Nat)
    (hp : set.prog id = true) (i : Nat) :
    ((parserUpdate cfg set t id w eb ex pos).1.getD i blank).lvl ≤ (t.getD i blank).lvl := by
  unfold parserUpdate
  split
  · rw [hp]; exact ex_updateString_lvl _ _ _ _ _ _ _
  · exact Nat.le_refl _

/-! ## PS / PTYN through the handlers -/

theorem ex_group1_ps (cfg : Cfg) (s : State) (g : Group) : (group1 cfg s g).1.ps = s.ps :=
  group1_text cfg s g 0
theorem ex_group1_ptyn (cfg : Cfg) (s : State) (g : Group) : (group1 cfg s g).1.ptyn = s.ptyn :=
  group1_text cfg s g 3

theorem ex_group2_ps (cfg : Cfg) (s : State) (g : Group) : (group2 cfg s g).1.ps = s.ps := by
  rw [cells_group2_fst]; split <;> simp
theorem ex_group2_ptyn (cfg : Cfg) (s : State) (g : Group) : (group2 cfg s g).1.ptyn = s.ptyn := by
  rw [cells_group2_fst]; split <;> simp

theorem ex_group1_set (cfg : Cfg) (s : State) (g : Group) : (group1 cfg s g).1.set = s.set := by
  unfold group1; split <;> simp
theorem ex_group2_set (cfg : Cfg) (s : State) (g : Group) : (group2 cfg s g).1.set = s.set := by
  rw [cells_group2_fst]; split <;> simp
theorem ex_group0_set (cfg : Cfg) (s : State) (g : Group) : (group0 cfg s g).1.set = s.set := by
  unfold group0; simp only []; split <;> split <;> simp
theorem ex_group10_set (cfg : Cfg) (s : State) (g : Group) : (group10 cfg s g).1.set = s.set := by
  unfold group10; split <;> rfl

theorem ex_dispatch_set (cfg : Cfg) (s : State) (g : Group) : (dispatch cfg s g).1.set = s.set := by
  unfold dispatch
  split
  · exact ex_group0_set _ _ _
  · split
    · exact ex_group1_set _ _ _
    · split
      · exact ex_group2_set _ _ _
      · split
        · rw [cells_group4_fst]
        · split
          · exact ex_group10_set _ _ _
          · rfl

theorem ex_process_set (cfg : Cfg) (s : State) (g : Group) : (process cfg s g).1.set = s.set := by
  show (dispatch cfg (groupCommon s g).1 g).1.set = s.set
  rw [ex_dispatch_set, groupCommon_set]

/-- PS levels through the type dispatch -/
theorem ex_dispatch_ps_lvl (cfg : Cfg) (s : State) (g : Group) (hp : s.set.progPs = true) (i : Nat) :
    ((dispatch cfg s g).1.ps.getD i blank).lvl ≤ (s.ps.getD i blank).lvl := by
  unfold dispatch
  split
  · rw [group0_ps]; exact ex_parserUpdate_lvl cfg s.set _ .ps _ _ _ _ hp i
  · split
    · rw [ex_group1_ps]; exact Nat.le_refl _
    · split
      · rw [ex_group2_ps]; exact Nat.le_refl _
      · split
        · rw [cells_group4_fst]; exact Nat.le_refl _
        · split
          · rw [group10_ps]; exact Nat.le_refl _
          · exact Nat.le_refl _

theorem ex_group10_ptyn_lvl (cfg : Cfg) (s : State) (g : Group) (hp : s.set.progPtyn = true) (i : Nat) :
    ((group10 cfg s g).1.ptyn.getD i blank).lvl ≤ (s.ptyn.getD i blank).lvl := by
  cases hv : g.versionB
  · rw [group10_ptyn_A _ _ _ hv]
    exact Nat.le_trans (ex_parserUpdate_lvl cfg s.set _ .ptyn _ _ _ _ hp i) (ex_parserUpdate_lvl cfg s.set _ .ptyn _ _ _ _ hp i)
  · rw [group10_ptyn_B _ _ _ hv]; exact Nat.le_refl _

theorem ex_dispatch_ptyn_lvl (cfg : Cfg) (s : State) (g : Group) (hp : s.set.progPtyn = true) (i : Nat) :
    ((dispatch cfg s g).1.ptyn.getD i blank).lvl ≤ (s.ptyn.getD i blank).lvl := by
  unfold dispatch
  split
  · rw [group0_ptyn]; exact Nat.le_refl _
  · split
    · rw [ex_group1_ptyn]; exact Nat.le_refl _
    · split
      · rw [ex_group2_ptyn]; exact Nat.le_refl _
      · split
        · rw [cells_group4_fst]; exact Nat.le_refl _
        · split
          · exact ex_group10_ptyn_lvl _ _ _ hp i
          · exact Nat.le_refl _

theorem ex_process_ps_lvl (cfg : Cfg) (s : State) (g : Group) (hp : s.set.progPs = true) (i : Nat) :
    ((process cfg s g).1.ps.getD i blank).lvl ≤ (s.ps.getD i blank).lvl := by
  show ((dispatch cfg (groupCommon s g).1 g).1.ps.getD i blank).lvl ≤ _
  have := ex_dispatch_ps_lvl cfg (groupCommon s g).1 g (by rw [groupCommon_set]; exact hp) i
  rw [groupCommon_ps] at this
  exact this

theorem ex_process_ptyn_lvl (cfg : Cfg) (s : State) (g : Group) (hp : s.set.progPtyn = true) (i : Nat) :
    ((process cfg s g).1.ptyn.getD i blank).lvl ≤ (s.ptyn.getD i blank).lvl := by
  show ((dispatch cfg (groupCommon s g).1 g).1.ptyn.getD i blank).lvl ≤ _
  have := ex_dispatch_ptyn_lvl cfg (groupCommon s g).1 g (by rw [groupCommon_set]; exact hp) i
  rw [groupCommon_ptyn] at this
  exact this

end RDS
