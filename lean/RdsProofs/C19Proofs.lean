import RdsModel
import RdsSpec.Monitors
import RdsSpec.Statements
import RdsProofs.Frame
import RdsProofs.Inv
/-!
# RdsProofs.C19Proofs — instances are isolated (model level)
-/
namespace RDS

theorem c19_World_get_set_ne (w : World) (c i : Nat) (x : Option State) (hi : i ≠ c) :
    (World.get { w with slots := w.slots.set c x } i) = w.get i := by
  simp only [World.get, List.getD_eq_getElem?_getD, List.getElem?_set]
  have : ¬ c = i := fun e => hi e.symm
  simp [this]

theorem c19_World_get_set_self (w : World) (c : Nat) (x : Option State) (hc : c < w.slots.length) :
    (World.get { w with slots := w.slots.set c x } c) = x := by
  simp only [World.get, List.getD_eq_getElem?_getD, List.getElem?_set]
  simp [hc]

/-- an operation on the current slot never changes another slot -/
theorem C19_other_slots (cfg : Cfg) (w : World) (m : MOp) (i : Nat) (hi : i ≠ w.cur) (_hlen : w.slots.length = numSlots) :
    (mstep cfg w m).1.get i = w.get i := by
  cases m with
  | select j => rfl
  | create => exact c19_World_get_set_ne w w.cur i _ hi
  | destroy => exact c19_World_get_set_ne w w.cur i _ hi
  | mallocFail => rfl
  | freeNull => rfl
  | op o =>
    simp only [mstep]
    split
    · rfl
    · exact c19_World_get_set_ne w w.cur i _ hi

/-- `select` changes no slot at all -/
theorem C19_select (cfg : Cfg) (w : World) (j i : Nat) : (mstep cfg w (.select j)).1.get i = w.get i := rfl

/-- what the current slot does is exactly what a solo parser would do -/
theorem C19_cur (cfg : Cfg) (w : World) (o : Op) (s : State) (h : w.get w.cur = some s)
    (hcur : w.cur < numSlots) (hlen : w.slots.length = numSlots) :
    (mstep cfg w (.op o)).1.get w.cur = some (step cfg s o).1 ∧
    (mstep cfg w (.op o)).2 = (step cfg s o).2 := by
  have hm : mstep cfg w (.op o) =
      ({ w with slots := w.slots.set w.cur (some (step cfg s o).1) }, (step cfg s o).2.1, (step cfg s o).2.2) := by
    simp only [mstep, h]
  rw [hm]
  exact ⟨c19_World_get_set_self w w.cur _ (by omega), rfl⟩

/-- determinism: the model is a function (stated for the record) -/
theorem C19_deterministic (cfg : Cfg) (ops : List Op) : run cfg ops = run cfg ops := rfl

/-! ## lifted to interleaved schedules -/

/-- the ops that an interleaved schedule applies to slot i:
cur, schedule ↦ subsequence of non-select ops issued while cur = i -/
def soloOf (i : Nat) : Nat → List MOp → List MOp
  | _, [] => []
  | _, .select j :: rest => soloOf i (j % numSlots) rest
  | cur, m :: rest => if cur = i then m :: soloOf i cur rest else soloOf i cur rest

def mrun (cfg : Cfg) (w : World) (ms : List MOp) : World := ms.foldl (fun w m => (mstep cfg w m).1) w

theorem c19_mstep_slots_length (cfg : Cfg) (w : World) (m : MOp) :
    (mstep cfg w m).1.slots.length = w.slots.length := by
  cases m with
  | select j => rfl
  | create => simp [mstep]
  | destroy => simp [mstep]
  | mallocFail => rfl
  | freeNull => rfl
  | op o =>
    simp only [mstep]
    split
    · rfl
    · simp

theorem c19_mstep_cur_lt (cfg : Cfg) (w : World) (m : MOp) (hcur : w.cur < numSlots) :
    (mstep cfg w m).1.cur < numSlots := by
  cases m with
  | select j => exact Nat.mod_lt _ (by decide)
  | create => exact hcur
  | destroy => exact hcur
  | mallocFail => exact hcur
  | freeNull => exact hcur
  | op o =>
    simp only [mstep]
    split <;> exact hcur

/-- a non-select op keeps the current slot -/
theorem c19_mstep_cur_eq (cfg : Cfg) (w : World) (m : MOp) (hm : ∀ j, m ≠ .select j) :
    (mstep cfg w m).1.cur = w.cur := by
  cases m with
  | select j => exact absurd rfl (hm j)
  | create => rfl
  | destroy => rfl
  | mallocFail => rfl
  | freeNull => rfl
  | op o =>
    simp only [mstep]
    split <;> rfl

/-- the effect of an op on the current slot depends only on that slot's content -/
theorem c19_mstep_get_cur_congr (cfg : Cfg) (w w' : World) (m : MOp)
    (hl : w.slots.length = numSlots) (hl' : w'.slots.length = numSlots)
    (hc : w.cur = w'.cur) (hcur : w.cur < numSlots) (hg : w.get w.cur = w'.get w.cur) :
    (mstep cfg w m).1.get w.cur = (mstep cfg w' m).1.get w.cur := by
  have hcur' : w'.cur < numSlots := hc ▸ hcur
  cases m with
  | select j => exact hg
  | create =>
    simp only [mstep]
    rw [c19_World_get_set_self w w.cur _ (by omega), hc, c19_World_get_set_self w' w'.cur _ (by omega)]
  | destroy =>
    simp only [mstep]
    rw [c19_World_get_set_self w w.cur _ (by omega), hc, c19_World_get_set_self w' w'.cur _ (by omega)]
  | mallocFail => exact hg
  | freeNull => exact hg
  | op o =>
    have hg' : w'.get w'.cur = w.get w.cur := by rw [← hc]; exact hg.symm
    simp only [mstep, hg']
    cases hs : w.get w.cur with
    | none => simp only; rw [← hg, hs]
    | some s =>
      simp only
      rw [c19_World_get_set_self w w.cur _ (by omega), hc, c19_World_get_set_self w' w'.cur _ (by omega)]

/-- generalised isolation: two worlds that agree on slot `i`, the second one having `i` selected -/
theorem c19_isolation_aux (cfg : Cfg) (i : Nat) (_hi : i < numSlots) (ms : List MOp) :
    ∀ (w w' : World), w.slots.length = numSlots → w'.slots.length = numSlots →
      w.cur < numSlots → w'.cur = i → w.get i = w'.get i →
      (mrun cfg w ms).get i = (mrun cfg w' (soloOf i w.cur ms)).get i := by
  induction ms with
  | nil => intro w w' _ _ _ _ hg; exact hg
  | cons m rest ih =>
    intro w w' hl hl' hcur hc' hg
    by_cases hsel : ∃ j, m = .select j
    · obtain ⟨j, rfl⟩ := hsel
      simp only [soloOf, mrun, List.foldl_cons]
      exact ih (mstep cfg w (.select j)).1 w' hl hl' (Nat.mod_lt _ (by decide)) hc' hg
    · have hm : ∀ j, m ≠ .select j := fun j e => hsel ⟨j, e⟩
      have hso : soloOf i w.cur (m :: rest) =
          if w.cur = i then m :: soloOf i w.cur rest else soloOf i w.cur rest := by
        cases m with
        | select j => exact absurd rfl (hm j)
        | create => rfl
        | destroy => rfl
        | mallocFail => rfl
        | freeNull => rfl
        | op o => rfl
      rw [hso]
      have hcur1 : (mstep cfg w m).1.cur = w.cur := c19_mstep_cur_eq cfg w m hm
      have hl1 : (mstep cfg w m).1.slots.length = numSlots := c19_mstep_slots_length cfg w m ▸ hl
      by_cases hci : w.cur = i
      · simp only [hci, if_true, mrun, List.foldl_cons]
        have hl1' : (mstep cfg w' m).1.slots.length = numSlots := c19_mstep_slots_length cfg w' m ▸ hl'
        have hcur1' : (mstep cfg w' m).1.cur = i := (c19_mstep_cur_eq cfg w' m hm).trans hc'
        have hg1 : (mstep cfg w m).1.get i = (mstep cfg w' m).1.get i := by
          have := c19_mstep_get_cur_congr cfg w w' m hl hl' (hci.trans hc'.symm) hcur (hci ▸ hg)
          rw [hci] at this
          exact this
        have := ih (mstep cfg w m).1 (mstep cfg w' m).1 hl1 hl1' (hcur1 ▸ hcur) hcur1' hg1
        rw [hcur1, hci] at this
        exact this
      · simp only [hci, if_false, mrun, List.foldl_cons]
        have hg1 : (mstep cfg w m).1.get i = w'.get i := by
          rw [C19_other_slots cfg w m i (fun e => hci e.symm) hl]; exact hg
        have := ih (mstep cfg w m).1 w' hl1 hl' (hcur1 ▸ hcur) hc' hg1
        rw [hcur1] at this
        exact this

/-- slot i after an arbitrary interleaving = slot i after its own ops alone (run with slot i selected) -/
theorem C19_isolation (cfg : Cfg) (w : World) (ms : List MOp) (i : Nat) (hi : i < numSlots)
    (hlen : w.slots.length = numSlots) (hcur : w.cur < numSlots) :
    (mrun cfg w ms).get i = (mrun cfg { w with cur := i } (soloOf i w.cur ms)).get i :=
  c19_isolation_aux cfg i hi ms w { w with cur := i } hlen hlen hcur rfl rfl

#print axioms C19_other_slots
#print axioms C19_select
#print axioms C19_cur
#print axioms C19_deterministic
#print axioms C19_isolation

end RDS
