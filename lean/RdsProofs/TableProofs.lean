import RdsModel.Generated
import RdsModel.Text
import RdsSpec.Reference
import RdsSpec.TableCheck
import RdsSpec.Statements
/-!
# RdsProofs.TableProofs — kernel-checked theorems about the extracted tables (C02, C11, C18, C20)

`Generated.*` is read out of the compiled library on every run; `Reference.*` is the hand-written
oracle. Every theorem here rests on closed, finite `Bool` facts evaluated by the kernel
(`decide +kernel`) over the *whole* table, then lifted to `∀` by the `tbl_…` lemmas.

The kernel evaluates each table in one pass (`l == expected`, `zipIdx.all`): indexing a 256-entry
list for every cell is quadratic and `String` operations cost ≈ 1 ms each in the kernel.

Theorems that are false for the library at its pinned commit (`C02_charset`, `C18_country_iso`,
`C18_iso_distinct`) are in `RdsProofs/TableProofsPending.lean`. Here they are represented by
`…_deviations` (the exact list of deviating arguments), `…_pinned_defects` (the wrong cells and the
correct values) and `…_except` (the statement for all other arguments).
-/

-- the kernel evaluations are memory-bound; checking them concurrently is slower than in sequence
set_option Elab.async false

namespace RDS
open RDS.TableCheck

/-! ## lifting lemmas -/

theorem tbl_getD_of_eq_map_range {α : Type} {l : List α} {n : Nat} {f : Nat → α}
    (h : l = (List.range n).map f) (a : Nat) (ha : a < n) (d : α) : l.getD a d = f a := by
  subst h
  simp [List.getD_eq_getElem?_getD, ha]

theorem tbl_getD_set_ne {α : Type} (l : List α) {i a : Nat} (v d : α) (h : i ≠ a) :
    (l.set i v).getD a d = l.getD a d := by
  simp [List.getD_eq_getElem?_getD, List.getElem?_set_ne h]

theorem tbl_getD_mem_or_default {α : Type} (l : List α) (i : Nat) (d : α) :
    l.getD i d ∈ l ∨ l.getD i d = d := by
  rw [List.getD_eq_getElem?_getD]
  cases h : l[i]? with
  | none => exact Or.inr rfl
  | some x => exact Or.inl (List.mem_of_getElem? h)

/-- a `Bool` predicate checked on every (index, value) of a list holds at every index -/
theorem tbl_zipIdx_all {α : Type} {l : List α} {p : Nat → α → Bool}
    (h : l.zipIdx.all (fun xi => p xi.2 xi.1) = true) (i : Nat) (d : α) (hi : i < l.length) :
    p i (l.getD i d) = true := by
  have hx : l[i]? = some (l.getD i d) := by
    simp [List.getD_eq_getElem?_getD, List.getElem?_eq_getElem hi]
  exact List.all_eq_true.mp h (l.getD i d, i) (List.mem_zipIdx_iff_getElem?.mpr hx)

/-! ## the reference tables are well-formed (guards against a malformed oracle) -/

theorem tbl_reference_shape :
    Reference.g0.length = 224 ∧
    Reference.countries.map (fun r => r.1.enumerator) = List.range Reference.countryCount ∧
    Reference.eccCodes =
      [0xA0, 0xA1, 0xA2, 0xA3, 0xA4, 0xA5, 0xA6, 0xD0, 0xD1, 0xD2, 0xD3, 0xD4,
       0xE0, 0xE1, 0xE2, 0xE3, 0xE4, 0xE5, 0xF0, 0xF1, 0xF2, 0xF3, 0xF4] ∧
    Reference.iecColumns.all (fun c => c.2.length == 15) = true ∧
    Reference.iecTable.map List.length = List.replicate 17 256 ∧
    (∀ t r, (Reference.pty t r).length = 32) := by
  refine ⟨by decide +kernel, by decide +kernel, by decide +kernel, by decide +kernel,
    by decide +kernel, ?_⟩
  intro t r; cases t <;> cases r <;> decide +kernel

theorem tbl_countries_length : Reference.countries.length = 221 := by decide +kernel

theorem tbl_generated_lengths :
    Generated.g0.length = 256 ∧ Generated.narrow.length = 256 ∧
    Generated.countryName.length = 256 ∧ Generated.countryIso.length = 256 ∧
    Generated.eccCountry.map List.length = List.replicate 17 256 := by
  refine ⟨by decide +kernel, by decide +kernel, by decide +kernel, by decide +kernel,
    by decide +kernel⟩

/-! ## C02 — character set of the default build -/

/-- the only byte at which the pinned library deviates from IEC 62106 table E.1 -/
theorem C02_charset_deviations : diffIdx Generated.g0 g0Expected 0 = [0x8D] :=
  eq_of_beq (by decide +kernel)

/-- the deviating cell: the library stores Greek small beta U+03B2 where table E.1 has the German
sharp s U+00DF; with that one cell replaced, the table is the reference table -/
theorem C02_charset_pinned_defects :
    Generated.g0.getD 0x8D 0 = 0x3B2 ∧ Reference.g0.getD (0x8D - 0x20) 0 = 0xDF ∧
    Generated.g0.set 0x8D 0xDF = g0Expected := by
  refine ⟨by decide +kernel, by decide +kernel, eq_of_beq (by decide +kernel)⟩

/-- `C02_charset` for every byte except 0x8D -/
theorem C02_charset_except : ∀ b, 0x20 ≤ b → b < 256 → b ≠ 0x8D →
    Generated.g0.getD b 0 = Reference.g0.getD (b - 0x20) 0 := by
  intro b h20 hb hne
  rw [← tbl_getD_set_ne Generated.g0 0xDF 0 (Ne.symm hne),
    tbl_getD_of_eq_map_range C02_charset_pinned_defects.2.2 b hb 0]
  have h0D : (b == 0x0D) = false := by simp; omega
  have hlt : ¬ b < 0x20 := by omega
  simp [Reference.g0Value, h0D, hlt]

theorem C02_stored :
    Generated.g0Stored = (List.range 256).map (fun b => b == 0x0D || decide (0x20 ≤ b)) :=
  eq_of_beq (by decide +kernel)

theorem C02_eol : Generated.g0.getD 0x0D 1 = 0 := by decide +kernel

/-- a stored printable never collides with the end-of-text marker -/
theorem C02_no_nul : ∀ b, b ≥ 0x20 → b < 256 → b ≠ 0x0D → Generated.g0.getD b 0 ≠ 0 := by
  intro b h20 hb _
  have h := tbl_zipIdx_all (l := Generated.g0) (p := fun i x => decide (i < 0x20) || x != 0)
    (by decide +kernel) b 0 (by rw [tbl_generated_lengths.1]; exact hb)
  have hlt : ¬ b < 0x20 := by omega
  simpa [hlt] using h

theorem C02_lane_independent :
    Generated.laneDependent = 0 ∧ Generated.laneDependentNarrow = 0 := by decide +kernel

/-! ## C20 — the `RDSPARSER_DISABLE_UNICODE` build -/

theorem C20_narrow_stored : Generated.narrowStored = storedExpected := eq_of_beq (by decide +kernel)
theorem C20_narrow_values : Generated.narrow = narrowExpected := eq_of_beq (by decide +kernel)

theorem C20_narrow_table : ∀ b, b < 256 →
    Generated.narrowStored.getD b false = (b == 0x0D || decide (0x20 ≤ b)) ∧
    Generated.narrow.getD b 0 =
      (if b = 0x0D then 0 else if b < 0x20 then 32 else if b < 0x7F then b else 0x20) := by
  intro b hb
  rw [tbl_getD_of_eq_map_range C20_narrow_stored b hb, tbl_getD_of_eq_map_range C20_narrow_values b hb]
  simp [Reference.stored, Reference.narrowValue, Reference.notStored]

/-- the narrow rule is the model's `conv` on every stored byte -/
theorem C20_narrow_is_conv : ∀ b, b < 256 → (b = 0x0D ∨ 0x20 ≤ b) →
    Generated.narrow.getD b 0 = RDS.conv (Generated.cfg false) b := by
  intro b hb hs
  rw [(C20_narrow_table b hb).2]
  simp only [RDS.conv, Generated.cfg]
  by_cases h0 : b = 0x0D
  · simp [h0]
  · have h20 : ¬ b < 0x20 := by omega
    by_cases h7 : b < 0x7F
    · have : ¬ 0x7F ≤ b := by omega
      simp [h0, h20, h7, this]
    · have : 0x7F ≤ b := by omega
      simp [h0, h20, h7, this]

theorem C20_consts :
    Generated.constsAgree = true ∧ Generated.eccCountryNarrowAgrees = true ∧
    Generated.lookupsNarrowAgree = true := by decide +kernel

/-- G0 on the ISO 646 range: the identity except for the four code positions that IEC 62106
assigns differently (¤ for $, ― for ^, ‖ for `, ¯ for ~) -/
def tbl_asciiVal (b : Nat) : Nat :=
  if b = 0x24 then 0xA4 else if b = 0x5E then 0x2015 else if b = 0x60 then 0x2016
  else if b = 0x7E then 0xAF else b

theorem C20_g0_ascii : ∀ b, 0x20 ≤ b → b ≤ 0x7E → Generated.g0.getD b 0 = tbl_asciiVal b := by
  intro b h20 h7e
  have h := tbl_zipIdx_all (l := Generated.g0)
    (p := fun i x => decide (i < 0x20) || decide (0x7E < i) || x == tbl_asciiVal i)
    (by decide +kernel) b 0 (by rw [tbl_generated_lengths.1]; omega)
  have h1 : ¬ b < 0x20 := by omega
  have h2 : ¬ 0x7E < b := by omega
  simpa [h1, h2] using h

/-- on 0x20..0x7E the default build's table is injective, fixes the space and never yields 0 -/
theorem C20_g0_injective_ascii :
    (∀ a b, 0x20 ≤ a → a ≤ 0x7E → 0x20 ≤ b → b ≤ 0x7E →
      Generated.g0.getD a 0 = Generated.g0.getD b 0 → a = b) ∧
    Generated.g0.getD 0x20 0 = 0x20 ∧
    (∀ a, 0x20 ≤ a → a ≤ 0x7E → Generated.g0.getD a 0 ≠ 0) := by
  refine ⟨?_, by decide +kernel, ?_⟩
  · intro a b ha ha' hb hb' heq
    rw [C20_g0_ascii a ha ha', C20_g0_ascii b hb hb'] at heq
    unfold tbl_asciiVal at heq
    repeat' split at heq
    all_goals omega
  · intro a ha ha'
    exact C02_no_nul a ha (by omega) (by omega)

/-! ## constants the model hard-codes -/

theorem caps_match :
    Generated.capPs = RDS.capPs ∧ Generated.capRt = RDS.capRt ∧ Generated.capPtyn = RDS.capPtyn ∧
    Generated.afBytes * 8 = RDS.afBits := by decide +kernel

theorem consts_match :
    Generated.errNone = 0 ∧ Generated.errSmall = 1 ∧ Generated.errLarge = 2 ∧
    Generated.errUncorrectable = 3 ∧ Generated.strUncorrectable = 10 ∧
    Generated.strUncorrectable = RDS.blank.lvl ∧
    Generated.countryUnknown = 0 ∧ Generated.countryCount = Reference.countryCount ∧
    Generated.piUnknown = -1 ∧ Generated.ptyUnknown = -1 ∧ Generated.tpUnknown = -1 ∧
    Generated.taUnknown = -1 ∧ Generated.msUnknown = -1 ∧ Generated.eccUnknown = -1 ∧
    RDS.Scalars.cleared.pi = Generated.piUnknown ∧ RDS.Scalars.cleared.pty = Generated.ptyUnknown ∧
    RDS.Scalars.cleared.tp = Generated.tpUnknown ∧ RDS.Scalars.cleared.ta = Generated.taUnknown ∧
    RDS.Scalars.cleared.ms = Generated.msUnknown ∧ RDS.Scalars.cleared.ecc = Generated.eccUnknown ∧
    RDS.Scalars.cleared.country = (Generated.countryUnknown : Int) ∧
    Generated.textPs = 0 ∧ Generated.textRt = 1 ∧ Generated.textPtyn = 2 ∧
    Generated.typeInfo = 0 ∧ Generated.typeData = 1 ∧
    Generated.rtFlagA = 0 ∧ Generated.rtFlagB = 1 ∧
    Generated.unicodeFlagDefault = 1 ∧ Generated.unicodeFlagNarrow = 0 := by decide +kernel

/-! ## C11 — ECC and country -/

/-- all 17 × 256 cells: the library's lookup is the IEC 62106-4 table -/
theorem C11_table : Generated.eccCountry = Reference.iecTable := eq_of_beq (by decide +kernel)

theorem C11_cells : ∀ nib e,
    (Generated.eccCountry.getD (nib + 1) []).getD e 0 = Reference.iec nib e := by
  intro nib e; rw [C11_table]; rfl

theorem tbl_eccRangeOk : eccRangeOk Generated.eccCountry = true := by decide +kernel

/-- every cell is a valid enumerator (also for out-of-range row/column arguments, where `getD`
yields 0) -/
theorem C11_range : ∀ row e,
    (Generated.eccCountry.getD row []).getD e 0 < Generated.countryCount := by
  intro row e
  have hpos : 0 < Generated.countryCount := by decide +kernel
  rcases tbl_getD_mem_or_default Generated.eccCountry row [] with hrow | hrow
  · have hr := List.all_eq_true.mp tbl_eccRangeOk _ hrow
    rcases tbl_getD_mem_or_default (Generated.eccCountry.getD row []) e 0 with hx | hx
    · simpa using List.all_eq_true.mp hr _ hx
    · rw [hx]; exact hpos
  · rw [hrow]; exact hpos

theorem tbl_eccUnknownOk : eccUnknownOk Generated.eccCountry = true := by decide +kernel

/-- PI unknown (row 0), nibble 0 (row 1) and every ECC byte other than the 23 allocated ones
(A0–A6, D0–D4, E0–E5, F0–F4) give "unknown" -/
theorem C11_unknown : ∀ row e, (row ≤ 1 ∨ e ∉ Reference.eccCodes) →
    (Generated.eccCountry.getD row []).getD e 0 = 0 := by
  intro row e hc
  have h := tbl_eccUnknownOk
  simp only [eccUnknownOk, Bool.and_eq_true] at h
  obtain ⟨h01, hall⟩ := h
  rcases Nat.lt_or_ge e (Generated.eccCountry.getD row []).length with hlen | hlen
  · rcases hc with hc | hc
    · -- rows 0 and 1 are zero
      have hrow : Generated.eccCountry.getD row [] ∈ Generated.eccCountry.take 2 ∨
          Generated.eccCountry.getD row [] = [] := by
        have : Generated.eccCountry.getD row [] = (Generated.eccCountry.take 2).getD row [] := by
          simp [List.getD_eq_getElem?_getD, show row < 2 by omega]
        rw [this]; exact tbl_getD_mem_or_default _ _ _
      rcases hrow with hrow | hrow
      · rcases tbl_getD_mem_or_default (Generated.eccCountry.getD row []) e 0 with hx | hx
        · have := List.all_eq_true.mp (List.all_eq_true.mp h01 _ hrow) _ hx
          simpa using this
        · exact hx
      · rw [hrow]; rfl
    · -- a non-zero cell sits in an allocated ECC column
      rcases tbl_getD_mem_or_default Generated.eccCountry row [] with hrow | hrow
      · have hr := List.all_eq_true.mp hall _ hrow
        have hz := tbl_zipIdx_all (l := Generated.eccCountry.getD row [])
          (p := fun i x => x == 0 || Reference.eccCodes.contains i) hr e 0 hlen
        simp only [Bool.or_eq_true, beq_iff_eq] at hz
        rcases hz with hz | hz
        · exact hz
        · exact absurd (List.contains_iff_mem.mp hz) hc
      · rw [hrow]; rfl
  · have hnone : (Generated.eccCountry.getD row [])[e]? = none := List.getElem?_eq_none hlen
    rw [List.getD_eq_getElem?_getD (l := Generated.eccCountry.getD row []), hnone]; rfl

/-- the range contract assumed by the logic proofs, for both builds -/
theorem eccOk (u : Bool) : RDS.EccOk ⟨Generated.cfg u, Generated.countryCount⟩ := by
  refine ⟨?_, ?_⟩
  · show 0 < Generated.countryCount
    decide +kernel
  · intro n e
    exact C11_range (n + 1) e

/-- Cells in which the older editions (EN 50067:1998, IEC 62106:2009/2015 Annex D) differ from the
IEC 62106-4:2018 layout of `Reference.iecColumns`, with the library's value: the library follows
the 2018 layout — E3/4 unallocated (older: Macedonia), E4/3 Macedonia (older: Kyrgyzstan),
E5/3 Kyrgyzstan (older: E5 not in use). -/
theorem C11_legacy_cells :
    Reference.legacyCells.map (fun c => (c.1, c.2.1, c.2.2.enumerator, eccCell (c.1 + 1) c.2.1)) =
      [(4, 0xE3, Reference.Country.macedonia.enumerator, 0),
       (3, 0xE4, Reference.Country.kyrgyzstan.enumerator, Reference.Country.macedonia.enumerator),
       (3, 0xE5, 0, Reference.Country.kyrgyzstan.enumerator)] := by
  decide +kernel

/-! ## C18 — PTY lookups -/

theorem tbl_pty_table (t : Reference.PtyTbl) (rbds : Bool) :
    genPty t rbds = ptyExpectedList t rbds := by
  cases t <;> cases rbds <;> exact eq_of_beq (by decide +kernel)

/-- all six PTY lookups, all 256 arguments (index = argument mod 256): the reference entry for
0..31, "Unknown" otherwise, never NULL -/
theorem C18_pty (t : Reference.PtyTbl) (rbds : Bool) : ∀ a, a < 256 →
    (genPty t rbds).getD a none =
      some (if a < 32 then (Reference.pty t rbds).getD a "!!" else "Unknown") := by
  intro a ha
  rw [tbl_getD_of_eq_map_range (tbl_pty_table t rbds) a ha]
  rfl

theorem C18_pty_name_rds : ∀ a, a < 256 → Generated.ptyNameRds.getD a none =
    some (if a < 32 then Reference.ptyRdsName.getD a "!!" else "Unknown") := C18_pty .name false
theorem C18_pty_short_rds : ∀ a, a < 256 → Generated.ptyShortRds.getD a none =
    some (if a < 32 then Reference.ptyRdsShort.getD a "!!" else "Unknown") := C18_pty .short false
theorem C18_pty_long_rds : ∀ a, a < 256 → Generated.ptyLongRds.getD a none =
    some (if a < 32 then Reference.ptyRdsLong.getD a "!!" else "Unknown") := C18_pty .long false
theorem C18_pty_name_rbds : ∀ a, a < 256 → Generated.ptyNameRbds.getD a none =
    some (if a < 32 then Reference.ptyRbdsName.getD a "!!" else "Unknown") := C18_pty .name true
theorem C18_pty_short_rbds : ∀ a, a < 256 → Generated.ptyShortRbds.getD a none =
    some (if a < 32 then Reference.ptyRbdsShort.getD a "!!" else "Unknown") := C18_pty .short true
theorem C18_pty_long_rbds : ∀ a, a < 256 → Generated.ptyLongRbds.getD a none =
    some (if a < 32 then Reference.ptyRbdsLong.getD a "!!" else "Unknown") := C18_pty .long true

/-- short names fit 8 characters and long names 16, RDS and RBDS, for every argument (including
the "Unknown" answers) -/
theorem C18_pty_width (rbds : Bool) : ∀ a s,
    ((genPty .short rbds).getD a none = some s → s.length ≤ 8) ∧
    ((genPty .long rbds).getD a none = some s → s.length ≤ 16) := by
  intro a s
  have h8 : (genPty .short rbds).all (widthOk 8) = true := by
    cases rbds <;> decide +kernel
  have h16 : (genPty .long rbds).all (widthOk 16) = true := by
    cases rbds <;> decide +kernel
  constructor
  · intro hs
    rcases tbl_getD_mem_or_default (genPty .short rbds) a none with hm | hm
    · have := List.all_eq_true.mp h8 _ hm
      rw [hs] at this; simpa [widthOk] using this
    · rw [hs] at hm; cases hm
  · intro hs
    rcases tbl_getD_mem_or_default (genPty .long rbds) a none with hm | hm
    · have := List.all_eq_true.mp h16 _ hm
      rw [hs] at this; simpa [widthOk] using this
    · rw [hs] at hm; cases hm

/-! ## C18 — country lookups -/

theorem tbl_country_names : Generated.countryName = namesExpected := eq_of_beq (by decide +kernel)

/-- the name lookup, all 256 arguments: the name of the enumerator for 1..countryCount−1,
"Unknown" for 0 and for ≥ countryCount; never NULL -/
theorem C18_country_name : ∀ a, a < 256 →
    Generated.countryName.getD a none = some (Reference.countryRow a).2.1 ∧
    ((a = 0 ∨ Generated.countryCount ≤ a) → Generated.countryName.getD a none = some "Unknown") := by
  intro a ha
  have h := tbl_getD_of_eq_map_range tbl_country_names a ha none
  refine ⟨h, ?_⟩
  intro hout
  rw [h]
  rcases hout with h0 | hge
  · subst h0; rfl
  · have : Reference.countries.length ≤ a := by
      rw [tbl_countries_length]; exact hge
    simp [Reference.expectedName, Reference.countryRow, List.getD_eq_getElem?_getD,
      List.getElem?_eq_none this]

/-- the arguments at which the pinned library's ISO lookup deviates from ISO 3166-1 -/
theorem C18_country_iso_deviations : diffIdx Generated.countryIso isoExpected 0 = [164, 166] :=
  eq_of_beq (by decide +kernel)

/-- the two wrong cells — El Salvador: "SN" (Senegal's code) instead of "SV"; Turks and Caicos
Islands: "TB" (unassigned) instead of "TC" — and with these two replaced the table is the
reference table -/
theorem C18_country_iso_pinned_defects :
    (nameAt 164, isoAt 164, Reference.expectedIso 164) = (some "El Salvador", some "SN", some "SV") ∧
    (nameAt 166, isoAt 166, Reference.expectedIso 166) =
      (some "Turks and Caicos islands", some "TB", some "TC") ∧
    (Generated.countryIso.set 164 (some "SV")).set 166 (some "TC") = isoExpected := by
  refine ⟨by decide +kernel, by decide +kernel, eq_of_beq (by decide +kernel)⟩

/-- a row of the reference with a proper enumerator is an entry of `Reference.iso3166` -/
theorem tbl_row_mem_iso3166 (a : Nat) (h0 : 0 < a) (hc : a < Generated.countryCount) :
    (Reference.countryRow a).2 ∈ Reference.iso3166 := by
  have hlen : a < Reference.countries.length := by rw [tbl_countries_length]; exact hc
  have h1 : (Reference.countries.drop 1)[a - 1]? = some (Reference.countryRow a) := by
    rw [List.getElem?_drop, show 1 + (a - 1) = a by omega]
    simp [Reference.countryRow, List.getD_eq_getElem?_getD, List.getElem?_eq_getElem hlen]
  exact List.mem_map.mpr ⟨_, List.mem_of_getElem? h1, rfl⟩

/-- `C18_country_iso` for every argument except the two deviating ones -/
theorem C18_country_iso_except : ∀ a, a < 256 → a ≠ 164 → a ≠ 166 →
    if 0 < a ∧ a < Generated.countryCount then
      ∃ n c, Generated.countryName.getD a none = some n ∧ Generated.countryIso.getD a none = some c ∧
        (n, c) ∈ Reference.iso3166
    else Generated.countryIso.getD a none = some "??" := by
  intro a ha h1 h2
  have hiso : Generated.countryIso.getD a none = Reference.expectedIso a := by
    rw [← tbl_getD_set_ne Generated.countryIso (some "SV") none (Ne.symm h1),
      ← tbl_getD_set_ne _ (some "TC") none (Ne.symm h2)]
    exact tbl_getD_of_eq_map_range C18_country_iso_pinned_defects.2.2 a ha none
  split
  · next hr =>
    exact ⟨_, _, (C18_country_name a ha).1, hiso, tbl_row_mem_iso3166 a hr.1 hr.2⟩
  · next hr =>
    rw [hiso]
    by_cases h0 : a = 0
    · subst h0; rfl
    · have : Reference.countries.length ≤ a := by
        rw [tbl_countries_length]
        have : Generated.countryCount = 221 := rfl
        omega
      simp [Reference.expectedIso, Reference.countryRow, List.getD_eq_getElem?_getD,
        List.getElem?_eq_none this]

/-- every in-range ISO result is two capital letters or the "--" placeholder -/
theorem C18_iso_two_letters : ∀ a, 0 < a → a < Generated.countryCount →
    ∃ s, Generated.countryIso.getD a none = some s ∧ Reference.isoShape s = true := by
  intro a h0 hc
  have hcc : Generated.countryCount = 221 := rfl
  have h := tbl_zipIdx_all (l := Generated.countryIso)
    (p := fun i o => i == 0 || decide (Generated.countryCount ≤ i) || shapeOk o)
    (by decide +kernel) a none (by rw [tbl_generated_lengths.2.2.2.1]; omega)
  have h1 : (a == 0) = false := by simp; omega
  have h2 : ¬ Generated.countryCount ≤ a := by omega
  simp only [h1, h2, decide_false, Bool.false_or] at h
  cases hs : Generated.countryIso.getD a none with
  | none => rw [hs] at h; cases h
  | some s => rw [hs] at h; exact ⟨s, rfl, h⟩

/-! ### distinct countries never share a code -/

theorem tbl_clashesWith_complete (i c : Nat) (hc : c ≠ 0) :
    ∀ (ds : List Nat) (k n : Nat), ds[n]? = some c → Reference.sameCountry i (k + n) = false →
      (i, k + n) ∈ clashesWith i c ds k
  | [], _, _, h, _ => by simp at h
  | d :: ds, k, 0, h, hs => by
    have hd : d = c := by simpa using h
    subst hd
    have hs' : Reference.sameCountry i k = false := by simpa using hs
    simp [clashesWith, hc, hs']
  | d :: ds, k, n + 1, h, hs => by
    have ih := tbl_clashesWith_complete i c hc ds (k + 1) n (by simpa using h)
      (by rwa [show k + 1 + n = k + (n + 1) by omega])
    rw [show k + (n + 1) = k + 1 + n by omega]
    unfold clashesWith
    split
    · exact List.mem_cons_of_mem _ ih
    · exact ih

theorem tbl_clashes_complete (c : Nat) (hc : c ≠ 0) :
    ∀ (cs : List Nat) (b m n : Nat), m < n → cs[m]? = some c → cs[n]? = some c →
      Reference.sameCountry (b + m) (b + n) = false → (b + m, b + n) ∈ clashes cs b
  | [], _, _, _, _, h, _, _ => by simp at h
  | _ :: _, _, _, 0, hmn, _, _, _ => by omega
  | x :: cs, b, 0, n + 1, _, hm, hn, hs => by
    have hx : x = c := by simpa using hm
    subst hx
    have h := tbl_clashesWith_complete b x hc cs (b + 1) n (by simpa using hn)
      (by rwa [show b + 1 + n = b + (n + 1) by omega, ← Nat.add_zero b])
    rw [show b + (n + 1) = b + 1 + n by omega, Nat.add_zero]
    unfold clashes
    exact List.mem_append_left _ h
  | x :: cs, b, m + 1, n + 1, hmn, hm, hn, hs => by
    have ih := tbl_clashes_complete c hc cs (b + 1) m n (by omega) (by simpa using hm)
      (by simpa using hn)
      (by rwa [show b + 1 + m = b + (m + 1) by omega, show b + 1 + n = b + (n + 1) by omega])
    rw [show b + (m + 1) = b + 1 + m by omega, show b + (n + 1) = b + 1 + n by omega]
    unfold clashes
    exact List.mem_append_right _ ih

/-- what a proved clash list says about the ISO lookup: two different in-range arguments with the
same proper code (not "--") name the same country, unless the pair is in the list -/
theorem tbl_iso_distinct_of_clashes {D : List (Nat × Nat)}
    (h : isoClashes Generated.countryIso = D) :
    ∀ i j, 0 < i → i < j → j < Generated.countryCount →
      ∀ s, Generated.countryIso.getD i none = some s → Generated.countryIso.getD j none = some s →
        s ≠ "--" → (i, j) ∉ D → Reference.sameCountry i j = true := by
  intro i j h0 hij hj s hi hjs hne hD
  have hcc : Generated.countryCount = 221 := rfl
  have hlen := tbl_generated_lengths.2.2.2.1
  -- the code of `s` is a proper one
  obtain ⟨s', hs', hshape⟩ := C18_iso_two_letters i h0 (by omega)
  rw [hi] at hs'
  cases hs'
  have hcode : Reference.isoCode s ≠ 0 := by
    simp only [Reference.isoShape, Bool.or_eq_true, bne_iff_ne, beq_iff_eq] at hshape
    rcases hshape with h1 | h1
    · exact h1
    · exact absurd h1 hne
  -- position of argument `a` in the list of codes
  have hidx : ∀ a, 0 < a → a < Generated.countryCount → Generated.countryIso.getD a none = some s →
      (((Generated.countryIso.take Generated.countryCount).drop 1).map codeOf)[a - 1]? =
        some (Reference.isoCode s) := by
    intro a ha0 hac hsa
    have hal : a < Generated.countryIso.length := by omega
    have hget : Generated.countryIso[a]? = some (some s) := by
      have := hsa
      rw [List.getD_eq_getElem?_getD, List.getElem?_eq_getElem hal] at this
      rw [List.getElem?_eq_getElem hal]
      exact congrArg some (by simpa using this)
    rw [List.getElem?_map, List.getElem?_drop, show 1 + (a - 1) = a by omega,
      List.getElem?_take_of_lt hac, hget]
    rfl
  cases hsame : Reference.sameCountry i j with
  | true => rfl
  | false =>
    exfalso
    have hmem := tbl_clashes_complete (Reference.isoCode s) hcode _ 1 (i - 1) (j - 1) (by omega)
      (hidx i h0 (by omega) hi) (hidx j (by omega) hj hjs)
      (by rwa [show 1 + (i - 1) = i by omega, show 1 + (j - 1) = j by omega])
    rw [show 1 + (i - 1) = i by omega, show 1 + (j - 1) = j by omega] at hmem
    exact hD (h ▸ hmem)

/-- the only pair of different countries sharing a code in the pinned library: Senegal (125) and
El Salvador (164), both "SN" -/
theorem C18_iso_distinct_deviations : isoClashes Generated.countryIso = [(125, 164)] :=
  eq_of_beq (by decide +kernel)

/-- `C18_iso_distinct` for every pair except (Senegal, El Salvador) -/
theorem C18_iso_distinct_except : ∀ i j, 0 < i → i < j → j < Generated.countryCount →
    ∀ s, Generated.countryIso.getD i none = some s → Generated.countryIso.getD j none = some s →
      s ≠ "--" → (i, j) ≠ (125, 164) → Reference.sameCountry i j = true := by
  intro i j h0 hij hj s hi hjs hne hpair
  exact tbl_iso_distinct_of_clashes C18_iso_distinct_deviations i j h0 hij hj s hi hjs hne
    (by simpa using hpair)

/-- the reference ISO codes themselves are shared only inside an alias class (the eight
"Australia …" entries) -/
theorem tbl_reference_iso_distinct :
    clashes ((Reference.countries.drop 1).map (fun r => Reference.isoCode r.2.2)) 1 = [] :=
  eq_of_beq (by decide +kernel)

/-! ## axioms -/

#print axioms tbl_reference_shape
#print axioms C02_charset_deviations
#print axioms C02_charset_pinned_defects
#print axioms C02_charset_except
#print axioms C02_stored
#print axioms C02_eol
#print axioms C02_no_nul
#print axioms C02_lane_independent
#print axioms C20_narrow_table
#print axioms C20_narrow_is_conv
#print axioms C20_consts
#print axioms C20_g0_ascii
#print axioms C20_g0_injective_ascii
#print axioms caps_match
#print axioms consts_match
#print axioms C11_table
#print axioms C11_cells
#print axioms C11_range
#print axioms C11_unknown
#print axioms eccOk
#print axioms C11_legacy_cells
#print axioms C18_pty
#print axioms C18_pty_name_rds
#print axioms C18_pty_short_rds
#print axioms C18_pty_long_rds
#print axioms C18_pty_name_rbds
#print axioms C18_pty_short_rbds
#print axioms C18_pty_long_rbds
#print axioms C18_pty_width
#print axioms C18_country_name
#print axioms C18_country_iso_deviations
#print axioms C18_country_iso_pinned_defects
#print axioms C18_country_iso_except
#print axioms C18_iso_two_letters
#print axioms C18_iso_distinct_deviations
#print axioms C18_iso_distinct_except
#print axioms tbl_reference_iso_distinct

end RDS
