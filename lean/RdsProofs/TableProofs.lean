import RdsModel.Generated
import RdsSpec.Reference
import RdsSpec.TableCheck
import RdsSpec.Statements
/-!
# RdsProofs.TableProofs — kernel-checked theorems about the extracted tables

`Generated.*` is read out of the compiled library on every run; `Reference.*` is the hand-written
oracle. Every theorem here is a closed, finite statement proved by `decide +kernel` on a `Bool`
check over the *whole* domain (`RdsSpec/TableCheck.lean`), lifted to `∀` by `all_range`.

Theorems that are false for the library at its pinned commit are in
`RdsProofs/TableProofsPending.lean`; here they are replaced by `…_deviations` theorems that prove
the exact list of deviating cells, and by `…_except` corollaries for all other cells.
-/
namespace RDS.TableProofs
open RDS RDS.TableCheck

/-! ## lifting lemmas -/

theorem all_range {p : Nat → Bool} {n : Nat} (h : (List.range n).all p = true) :
    ∀ a, a < n → p a = true :=
  fun a ha => List.all_eq_true.mp h a (List.mem_range.mpr ha)

theorem all_range₂ {p : Nat → Nat → Bool} {m n : Nat}
    (h : (List.range m).all (fun i => (List.range n).all (p i)) = true) :
    ∀ i, i < m → ∀ j, j < n → p i j = true :=
  fun i hi j hj => all_range (all_range h i hi) j hj

/-- a proved deviation list gives the check at every other argument -/
theorem ok_of_not_dev {ok : Nat → Bool} {L : List Nat} (h : deviations256 ok = L) :
    ∀ a, a < 256 → a ∉ L → ok a = true := by
  intro a ha hn
  subst h
  cases hok : ok a with
  | true => rfl
  | false =>
    exact absurd (List.mem_filter.mpr ⟨List.mem_range.mpr ha, by simp [hok]⟩) hn

theorem getD_mem_or_default {α : Type} (l : List α) (i : Nat) (d : α) :
    l.getD i d ∈ l ∨ l.getD i d = d := by
  rw [List.getD_eq_getElem?_getD]
  cases h : l[i]? with
  | none => exact Or.inr rfl
  | some x => exact Or.inl (List.mem_of_getElem? h)

/-! ## the reference tables are well-formed (guards against a malformed oracle) -/

theorem reference_shape :
    Reference.g0.length = 224 ∧ Reference.countries.length = 220 ∧
    Reference.countryNames.length = Reference.countryCount ∧
    Reference.eccCodes =
      [0xA0, 0xA1, 0xA2, 0xA3, 0xA4, 0xA5, 0xA6, 0xD0, 0xD1, 0xD2, 0xD3, 0xD4,
       0xE0, 0xE1, 0xE2, 0xE3, 0xE4, 0xE5, 0xF0, 0xF1, 0xF2, 0xF3, 0xF4] ∧
    Reference.iecColumns.all (fun c => c.2.length == 15) = true ∧
    (∀ t r, (Reference.pty t r).length = 32) := by
  refine ⟨by decide +kernel, by decide +kernel, by decide +kernel, by decide +kernel,
    by decide +kernel, ?_⟩
  intro t r; cases t <;> cases r <;> decide +kernel

/-- every name used in the IEC table is a name of the enumeration (no typo can hide as "unknown"
or out of range), and the names of the enumeration are pairwise distinct -/
theorem reference_names :
    Reference.iecColumns.all (fun c => c.2.all (fun n => n == "" || Reference.countryNames.contains n)) = true ∧
    Reference.countryNames.Nodup := by
  refine ⟨by decide +kernel, by decide +kernel⟩

/-! ## C02 — character set of the default build -/

/-- the only byte of the pinned library that deviates from IEC 62106 table E.1 -/
theorem C02_charset_deviations : deviations256 g0OkAt = [0x8D] := by decide +kernel

/-- the deviating cell: the library stores Greek small beta U+03B2, table E.1 has the German
sharp s U+00DF -/
theorem C02_charset_pinned_defects :
    Generated.g0.getD 0x8D 0 = 0x3B2 ∧ Reference.g0.getD (0x8D - 0x20) 0 = 0xDF := by decide +kernel

/-- `C02_charset` for every byte except 0x8D -/
theorem C02_charset_except : ∀ b, 0x20 ≤ b → b < 256 → b ≠ 0x8D →
    Generated.g0.getD b 0 = Reference.g0.getD (b - 0x20) 0 := by
  intro b h20 hb hne
  have h := ok_of_not_dev C02_charset_deviations b hb (by simpa using hne)
  have h0D : (b == 0x0D) = false := by simp; omega
  have hlt : ¬ b < 0x20 := by omega
  simp [g0OkAt, Reference.g0Value, h0D, hlt] at h
  exact h.2

theorem C02_stored :
    Generated.g0Stored = (List.range 256).map (fun b => b == 0x0D || decide (0x20 ≤ b)) := by
  decide +kernel

theorem C02_eol : Generated.g0.getD 0x0D 1 = 0 := by decide +kernel

/-- a stored printable never collides with the end-of-text marker -/
theorem C02_no_nul : ∀ b, b ≥ 0x20 → b < 256 → b ≠ 0x0D → Generated.g0.getD b 0 ≠ 0 := by
  intro b h20 hb _
  have h := all_range (p := fun b => !(decide (0x20 ≤ b)) || Generated.g0.getD b 0 != 0)
    (by decide +kernel) b hb
  simpa [h20] using h

theorem C02_lane_independent :
    Generated.laneDependent = 0 ∧ Generated.laneDependentNarrow = 0 := by decide +kernel

/-- control codes other than 0x0D are not stored, in either build -/
theorem C02_controls_not_stored : ∀ b, b < 0x20 → b ≠ 0x0D →
    Generated.g0Stored.getD b true = false ∧ Generated.narrowStored.getD b true = false := by
  intro b hb hne
  have h := all_range (p := fun b => b == 0x0D ||
      (!Generated.g0Stored.getD b true && !Generated.narrowStored.getD b true))
    (n := 0x20) (by decide +kernel) b hb
  simpa [hne] using h

/-! ## C20 — the `RDSPARSER_DISABLE_UNICODE` build -/

theorem C20_narrow_table : ∀ b, b < 256 →
    Generated.narrowStored.getD b false = (b == 0x0D || decide (0x20 ≤ b)) ∧
    Generated.narrow.getD b 0 =
      (if b = 0x0D then 0 else if b < 0x20 then 32 else if b < 0x7F then b else 0x20) := by
  intro b hb
  have h := all_range (p := narrowOkAt) (by decide +kernel) b hb
  simp only [narrowOkAt, Reference.stored, Reference.narrowValue, Reference.notStored,
    Bool.and_eq_true, beq_iff_eq] at h
  refine ⟨h.1, ?_⟩
  rw [h.2]

/-- the narrow rule coincides with the model's `conv` on every stored byte -/
theorem C20_narrow_is_conv : ∀ b, b < 256 → Reference.stored b = true →
    Generated.narrow.getD b 0 = RDS.conv (Generated.cfg false) b := by
  intro b hb hs
  have h := (C20_narrow_table b hb).2
  rw [h]
  simp [Reference.stored] at hs
  simp only [RDS.conv, Generated.cfg]
  by_cases h0 : b = 0x0D
  · simp [h0]
  · have h20 : ¬ b < 0x20 := by omega
    by_cases h7 : b < 0x7F
    · have : ¬ 0x7F ≤ b := by omega
      simp [h0, h20, h7, this]
    · have : 0x7F ≤ b := by omega
      simp [h0, h20, h7, this]

theorem C20_consts :
    Generated.constsAgree = true ∧ Generated.eccCountryNarrowAgrees = true ∧
    Generated.lookupsNarrowAgree = true := by decide +kernel

/-- on 0x20..0x7E the default build's table is injective, fixes the space and never yields 0 -/
theorem C20_g0_injective_ascii :
    (∀ a b, 0x20 ≤ a → a ≤ 0x7E → 0x20 ≤ b → b ≤ 0x7E →
      Generated.g0.getD a 0 = Generated.g0.getD b 0 → a = b) ∧
    Generated.g0.getD 0x20 0 = 0x20 ∧
    (∀ a, 0x20 ≤ a → a ≤ 0x7E → Generated.g0.getD a 0 ≠ 0) := by
  refine ⟨?_, by decide +kernel, ?_⟩
  · intro a b ha ha' hb hb' heq
    have h := all_range₂ (m := 0x7F) (n := 0x7F)
      (p := fun a b => !(decide (0x20 ≤ a) && decide (0x20 ≤ b) &&
        Generated.g0.getD a 0 == Generated.g0.getD b 0) || a == b)
      (by decide +kernel) a (by omega) b (by omega)
    simpa [ha, hb, heq] using h
  · intro a ha ha'
    exact C02_no_nul a ha (by omega) (by omega)

/-! ## constants the model hard-codes -/

theorem caps_match :
    Generated.capPs = RDS.capPs ∧ Generated.capRt = RDS.capRt ∧ Generated.capPtyn = RDS.capPtyn ∧
    Generated.afBytes * 8 = RDS.afBits := by decide +kernel

theorem consts_match :
    Generated.errNone = 0 ∧ Generated.errSmall = 1 ∧ Generated.errLarge = 2 ∧
    Generated.errUncorrectable = 3 ∧ Generated.strUncorrectable = 10 ∧
    Generated.strUncorrectable = RDS.blank.lvl ∧
    Generated.countryUnknown = 0 ∧ Generated.countryCount = Reference.countryCount ∧
    Generated.piUnknown = -1 ∧ Generated.ptyUnknown = -1 ∧ Generated.tpUnknown = -1 ∧
    Generated.taUnknown = -1 ∧ Generated.msUnknown = -1 ∧ Generated.eccUnknown = -1 ∧
    RDS.Scalars.cleared.pi = Generated.piUnknown ∧ RDS.Scalars.cleared.pty = Generated.ptyUnknown ∧
    RDS.Scalars.cleared.tp = Generated.tpUnknown ∧ RDS.Scalars.cleared.ta = Generated.taUnknown ∧
    RDS.Scalars.cleared.ms = Generated.msUnknown ∧ RDS.Scalars.cleared.ecc = Generated.eccUnknown ∧
    (RDS.Scalars.cleared.country : Int) = (Generated.countryUnknown : Int) ∧
    Generated.textPs = 0 ∧ Generated.textRt = 1 ∧ Generated.textPtyn = 2 ∧
    Generated.typeInfo = 0 ∧ Generated.typeData = 1 ∧
    Generated.rtFlagA = 0 ∧ Generated.rtFlagB = 1 ∧
    Generated.unicodeFlagDefault = 1 ∧ Generated.unicodeFlagNarrow = 0 := by decide +kernel

/-! ## C11 — ECC and country -/

theorem C11_table : Generated.eccCountry = Reference.iecTable := by decide +kernel

theorem C11_cells : ∀ row, row < 17 → ∀ e, e < 256 →
    (Generated.eccCountry.getD row []).getD e 0 = (if row = 0 then 0 else Reference.iec (row - 1) e) := by
  intro row hr e he
  have h := all_range₂ (p := eccOkAt) (by decide +kernel) row hr e he
  simpa [eccOkAt, eccCell, eccRef] using h

theorem C11_range : ∀ row, row < 17 → ∀ e, e < 256 →
    (Generated.eccCountry.getD row []).getD e 0 < Generated.countryCount := by
  intro row hr e he
  have h := all_range₂ (p := eccRangeOkAt) (by decide +kernel) row hr e he
  simpa [eccRangeOkAt, eccCell] using h

/-- PI unknown (row 0), nibble 0 (row 1) and every ECC byte other than the 23 allocated ones give
"unknown" -/
theorem C11_unknown : ∀ row, row < 17 → ∀ e, e < 256 →
    (row ≤ 1 ∨ e ∉ Reference.eccCodes) → (Generated.eccCountry.getD row []).getD e 0 = 0 := by
  intro row hr e he hc
  have h := all_range₂ (p := eccUnknownOkAt) (by decide +kernel) row hr e he
  simp only [eccUnknownOkAt, eccCell, Bool.or_eq_true, Bool.not_eq_true', beq_iff_eq,
    Bool.or_eq_false_iff, decide_eq_true_eq, decide_eq_false_iff_not, Bool.not_eq_false'] at h
  rcases h with h | h
  · rcases hc with hc | hc
    · exact absurd hc h.1
    · exact absurd (List.contains_iff_mem.mp h.2) hc
  · exact h

/-- the range contract assumed by the logic proofs, for both builds -/
theorem eccOk (u : Bool) : RDS.EccOk ⟨Generated.cfg u, Generated.countryCount⟩ := by
  have hall : Generated.eccCountry.all (fun r => r.all (fun x => x < Generated.countryCount)) = true := by
    decide +kernel
  refine ⟨by decide +kernel, ?_⟩
  intro n e
  show (Generated.eccCountry.getD (n + 1) []).getD e 0 < Generated.countryCount
  have hpos : 0 < Generated.countryCount := by decide +kernel
  rcases getD_mem_or_default Generated.eccCountry (n + 1) [] with hrow | hrow
  · have hr := List.all_eq_true.mp hall _ hrow
    rcases getD_mem_or_default (Generated.eccCountry.getD (n + 1) []) e 0 with hx | hx
    · simpa using List.all_eq_true.mp hr _ hx
    · rw [hx]; exact hpos
  · rw [hrow]; exact hpos

/-- cells in which the older editions (EN 50067:1998, IEC 62106:2009/2015 Annex D) differ from the
IEC 62106-4:2018 layout of `Reference.iecColumns`; the library follows the 2018 layout:
E3/4 unallocated (older: Macedonia), E4/3 Macedonia (older: Kyrgyzstan), E5/3 Kyrgyzstan (older:
E5 not in use). -/
theorem C11_legacy_cells :
    Reference.legacyCells.map (fun c => (c.1, c.2.1, c.2.2, Reference.countryNames.getD (eccCell (c.1 + 1) c.2.1) "")) =
      [(4, 0xE3, "Macedonia", "Unknown"), (3, 0xE4, "Kyrgyzstan", "Macedonia"), (3, 0xE5, "", "Kyrgyzstan")] := by
  decide +kernel

/-! ## C18 — PTY lookups -/

/-- all six PTY lookups, all 256 arguments: the reference entry for 0..31, "Unknown" otherwise,
never NULL -/
theorem C18_pty (t : Reference.PtyTbl) (rbds : Bool) : ∀ a, a < 256 →
    (genPty t rbds).getD a none =
      some (if a < 32 then (Reference.pty t rbds).getD a "" else "Unknown") := by
  intro a ha
  have h : ptyOkAt t rbds a = true := by
    cases t <;> cases rbds <;> exact all_range (by decide +kernel) a ha
  have hlen : (Reference.pty t rbds).length = 32 := reference_shape.2.2.2.2.2 t rbds
  simp only [ptyOkAt, Reference.ptyExpected, Bool.and_eq_true, beq_iff_eq] at h
  rw [h.2]
  by_cases h32 : a < 32
  · have : a < (Reference.pty t rbds).length := by omega
    simp [h32, List.getD_eq_getElem?_getD, List.getElem?_eq_getElem this]
  · simp [h32]

theorem C18_pty_name_rds : ∀ a, a < 256 → Generated.ptyNameRds.getD a none =
    some (if a < 32 then Reference.ptyRdsName.getD a "" else "Unknown") := C18_pty .name false
theorem C18_pty_short_rds : ∀ a, a < 256 → Generated.ptyShortRds.getD a none =
    some (if a < 32 then Reference.ptyRdsShort.getD a "" else "Unknown") := C18_pty .short false
theorem C18_pty_long_rds : ∀ a, a < 256 → Generated.ptyLongRds.getD a none =
    some (if a < 32 then Reference.ptyRdsLong.getD a "" else "Unknown") := C18_pty .long false
theorem C18_pty_name_rbds : ∀ a, a < 256 → Generated.ptyNameRbds.getD a none =
    some (if a < 32 then Reference.ptyRbdsName.getD a "" else "Unknown") := C18_pty .name true
theorem C18_pty_short_rbds : ∀ a, a < 256 → Generated.ptyShortRbds.getD a none =
    some (if a < 32 then Reference.ptyRbdsShort.getD a "" else "Unknown") := C18_pty .short true
theorem C18_pty_long_rbds : ∀ a, a < 256 → Generated.ptyLongRbds.getD a none =
    some (if a < 32 then Reference.ptyRbdsLong.getD a "" else "Unknown") := C18_pty .long true

/-- short names fit 8 characters and long names 16, RDS and RBDS, for every argument (including
the "Unknown" answers) -/
theorem C18_pty_width (rbds : Bool) : ∀ a, a < 256 → ∀ s,
    ((genPty .short rbds).getD a none = some s → s.length ≤ 8) ∧
    ((genPty .long rbds).getD a none = some s → s.length ≤ 16) := by
  intro a ha s
  have h8 : ptyWidthOkAt .short rbds a = true := by
    cases rbds <;> exact all_range (by decide +kernel) a ha
  have h16 : ptyWidthOkAt .long rbds a = true := by
    cases rbds <;> exact all_range (by decide +kernel) a ha
  constructor
  · intro hs; simpa [ptyWidthOkAt, Reference.ptyWidth, hs] using h8
  · intro hs; simpa [ptyWidthOkAt, Reference.ptyWidth, hs] using h16

/-! ## C18 — country lookups -/

/-- the name lookup: the enumerator's name for 1..countryCount−1, "Unknown" otherwise, never NULL -/
theorem C18_country_name : ∀ a, a < 256 →
    Generated.countryName.getD a none =
      some (if 0 < a ∧ a < Generated.countryCount then Reference.countryNames.getD a "" else "Unknown") := by
  intro a ha
  have h := all_range (p := nameOkAt) (by decide +kernel) a ha
  simp only [nameOkAt, nameAt, inRange, beq_iff_eq] at h
  rw [h]
  by_cases hr : 0 < a ∧ a < Generated.countryCount
  · have hlen : a < Reference.countryNames.length := by
      have := reference_shape.2.2.1; have := consts_match.2.2.2.2.2.2.2.1; omega
    simp [hr, List.getD_eq_getElem?_getD, List.getElem?_eq_getElem hlen]
  · have : (decide (0 < a) && decide (a < Generated.countryCount)) = false := by
      simpa [Bool.and_eq_false_iff] using (by omega : ¬ 0 < a ∨ ¬ a < Generated.countryCount)
    simp [hr, this]

theorem C18_country_name_unknown : ∀ a, a < 256 → (a = 0 ∨ Generated.countryCount ≤ a) →
    Generated.countryName.getD a none = some "Unknown" := by
  intro a ha hout
  rw [C18_country_name a ha]
  have : ¬ (0 < a ∧ a < Generated.countryCount) := by omega
  simp [this]

/-- the deviating arguments of the pinned library's ISO lookup -/
theorem C18_country_iso_deviations : deviations256 isoOkAt = [164, 166] := by decide +kernel

/-- the two wrong cells: what the library returns, and the ISO 3166-1 code of the named country -/
theorem C18_country_iso_pinned_defects :
    (nameAt 164, isoAt 164, Reference.isoOf "El Salvador") = (some "El Salvador", some "SN", "SV") ∧
    (nameAt 166, isoAt 166, Reference.isoOf "Turks and Caicos islands") =
      (some "Turks and Caicos islands", some "TB", "TC") := by decide +kernel

/-- `C18_country_iso` for every argument except the two deviating ones -/
theorem C18_country_iso_except : ∀ a, a < 256 → a ∉ [164, 166] →
    if 0 < a ∧ a < Generated.countryCount then
      ∃ n, Generated.countryName.getD a none = some n ∧
        Generated.countryIso.getD a none = some (Reference.isoOf n)
    else Generated.countryIso.getD a none = some "??" := by
  intro a ha hn
  have h := ok_of_not_dev C18_country_iso_deviations a ha hn
  simp only [isoOkAt, inRange, nameAt, isoAt] at h
  by_cases hr : 0 < a ∧ a < Generated.countryCount
  · have hb : (decide (0 < a) && decide (a < Generated.countryCount)) = true := by simp [hr]
    rw [if_pos hr]
    rw [if_pos hb] at h
    cases hn : Generated.countryName.getD a none with
    | none => simp [hn] at h
    | some n => exact ⟨n, rfl, by simpa [hn] using h⟩
  · have hb : ¬ (decide (0 < a) && decide (a < Generated.countryCount)) = true := by
      simpa using (by omega : 0 < a → Generated.countryCount ≤ a)
    rw [if_neg hr]
    rw [if_neg hb] at h
    simpa using h

/-- every in-range ISO result is two capital letters or the "--" placeholder -/
theorem C18_iso_two_letters : ∀ a, 0 < a → a < Generated.countryCount →
    ∃ s, Generated.countryIso.getD a none = some s ∧ s.length = 2 ∧ Reference.isoShape s = true := by
  intro a h0 hc
  have ha : a < 256 := by have : Generated.countryCount = 221 := rfl; omega
  have h := all_range (p := isoShapeOkAt) (by decide +kernel) a ha
  have hb : inRange a = true := by simp [inRange, h0, hc]
  simp only [isoShapeOkAt, hb, Bool.not_true, Bool.false_or, isoAt] at h
  cases hs : Generated.countryIso.getD a none with
  | none => simp [hs] at h
  | some s => exact ⟨s, rfl, by simpa [hs] using h⟩

/-- the only pair of distinct countries sharing a code in the pinned library: Senegal (125) and
El Salvador (164), both "SN" -/
theorem C18_iso_distinct_deviations : isoDistinctDeviations = [(125, 164)] := by decide +kernel

/-! ## axioms -/

#print axioms reference_shape
#print axioms reference_names
#print axioms C02_charset_deviations
#print axioms C02_charset_pinned_defects
#print axioms C02_charset_except
#print axioms C02_stored
#print axioms C02_eol
#print axioms C02_no_nul
#print axioms C02_lane_independent
#print axioms C02_controls_not_stored
#print axioms C20_narrow_table
#print axioms C20_narrow_is_conv
#print axioms C20_consts
#print axioms C20_g0_injective_ascii
#print axioms caps_match
#print axioms consts_match
#print axioms C11_table
#print axioms C11_cells
#print axioms C11_range
#print axioms C11_unknown
#print axioms eccOk
#print axioms C11_legacy_cells
#print axioms C18_pty
#print axioms C18_pty_name_rds
#print axioms C18_pty_short_rds
#print axioms C18_pty_long_rds
#print axioms C18_pty_name_rbds
#print axioms C18_pty_short_rbds
#print axioms C18_pty_long_rbds
#print axioms C18_pty_width
#print axioms C18_country_name
#print axioms C18_country_name_unknown
#print axioms C18_country_iso_deviations
#print axioms C18_country_iso_pinned_defects
#print axioms C18_country_iso_except
#print axioms C18_iso_two_letters
#print axioms C18_iso_distinct_deviations

end RDS.TableProofs
