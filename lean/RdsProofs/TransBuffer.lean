import RdsProofs.TransAbs
/-!
# RdsProofs.TransBuffer — refinement of the buffer / settings API of the translated C code

`rdsparser_set_<field>`, `rdsparser_add_af`, `rdsparser_init`, `rdsparser_clear`, the settings setters and the
callback registration functions of `RdsC/Translated.lean`, seen through `abs` (`TransAbs.lean`), are the
corresponding functions of the hand-written model, and preserve the invariant `CInv`.
-/
set_option linter.unusedSimpArgs false
set_option linter.unusedVariables false

namespace RDS.C
open RDS
open RDS.C.TransBits (bitsOf af_get_eq af_set_eq)

/-! ## definitions requested -/

/-- dispatch to the seven translated `rdsparser_set_<field>` -/
def cSetField : Fld → C_librdsparser → Int → CLog → C_librdsparser × CLog
  | .pi => c_rdsparser_set_pi | .pty => c_rdsparser_set_pty | .tp => c_rdsparser_set_tp
  | .ta => c_rdsparser_set_ta | .ms => c_rdsparser_set_ms | .ecc => c_rdsparser_set_ecc
  | .country => c_rdsparser_set_country

/-- the value range of the field's C type that the callers guarantee -/
def FldRange : Fld → Int → Prop
  | .pi, v => 0 ≤ v ∧ v < 65536
  | .pty, v => 0 ≤ v ∧ v < 32
  | .tp, v => v = 0 ∨ v = 1
  | .ta, v => v = 0 ∨ v = 1
  | .ms, v => v = 0 ∨ v = 1
  | .ecc, v => 0 ≤ v ∧ v < 256
  | .country, v => 0 ≤ v ∧ v < 256

/-- `rdsparser_text_t` -/
def textIdx : TextId → Int
  | .ps => 0 | .rt => 1 | .ptyn => 2

/-- `rdsparser_block_type_t` -/
def typeIdx : BlockType → Int
  | .info => 0 | .data => 1

/-- dispatch to the twelve translated `rdsparser_register_<cb>` -/
def cRegister : Cb → C_librdsparser → Int → C_librdsparser
  | .pi => c_rdsparser_register_pi | .pty => c_rdsparser_register_pty | .tp => c_rdsparser_register_tp
  | .ta => c_rdsparser_register_ta | .ms => c_rdsparser_register_ms | .ecc => c_rdsparser_register_ecc
  | .country => c_rdsparser_register_country | .af => c_rdsparser_register_af
  | .ps => c_rdsparser_register_ps | .rt => c_rdsparser_register_rt | .ptyn => c_rdsparser_register_ptyn
  | .ct => c_rdsparser_register_ct

/-! ## the simple setters -/

theorem tb_b2i_bne (b : Bool) : (b2i b != 0) = b := by cases b <;> rfl

theorem register_refines (r : C_librdsparser) (hI : CInv r) (c : Cb) (on : Bool) :
    abs (cRegister c r (b2i on)) = { abs r with cbs := (abs r).cbs.set c.idx on } ∧
    CInv (cRegister c r (b2i on)) := by
  constructor
  · cases c <;> simp [cRegister, abs, absCbs, absSet, Cb.idx, tb_b2i_bne,
      c_rdsparser_register_pi, c_rdsparser_register_pty, c_rdsparser_register_tp, c_rdsparser_register_ta,
      c_rdsparser_register_ms, c_rdsparser_register_ecc, c_rdsparser_register_country,
      c_rdsparser_register_af, c_rdsparser_register_ps, c_rdsparser_register_rt,
      c_rdsparser_register_ptyn, c_rdsparser_register_ct]
  · cases c <;> exact ⟨hI.used, hI.temp, hI.ext, hI.ps, hI.rtLen, hI.rt0, hI.rt1, hI.ptyn, hI.progLen,
      hI.prog, hI.corrLen, hI.corr, hI.lastRt, hI.ud⟩

theorem set_user_data_refines (r : C_librdsparser) (hI : CInv r) (n : Nat) :
    abs (c_rdsparser_set_user_data r (n : Int)) = { abs r with ud := n } ∧
    CInv (c_rdsparser_set_user_data r (n : Int)) := by
  constructor
  · simp [c_rdsparser_set_user_data, abs, absCbs, absSet]
  · exact ⟨hI.used, hI.temp, hI.ext, hI.ps, hI.rtLen, hI.rt0, hI.rt1, hI.ptyn, hI.progLen,
      hI.prog, hI.corrLen, hI.corr, hI.lastRt, Int.natCast_nonneg n⟩

theorem set_extended_check_refines (r : C_librdsparser) (hI : CInv r) (v : Bool) :
    abs (c_rdsparser_set_extended_check r (b2i v)) = { abs r with set := { (abs r).set with ext := v } } ∧
    CInv (c_rdsparser_set_extended_check r (b2i v)) := by
  constructor
  · simp [c_rdsparser_set_extended_check, c_rdsparser_buffer_set_extended_check, abs, absCbs, absSet,
      tb_b2i_bne]
  · refine ⟨hI.used, hI.temp, ?_, hI.ps, hI.rtLen, hI.rt0, hI.rt1, hI.ptyn, hI.progLen,
      hI.prog, hI.corrLen, hI.corr, hI.lastRt, hI.ud⟩
    cases v <;> simp [c_rdsparser_set_extended_check, c_rdsparser_buffer_set_extended_check]

theorem tb_inv_of_settings (r r' : C_librdsparser) (hI : CInv r)
    (hb : r'.buffer = r.buffer) (hps : r'.ps = r.ps) (hrt : r'.rt = r.rt) (hptyn : r'.ptyn = r.ptyn)
    (hl : r'.last_rt_flag = r.last_rt_flag) (hu : r'.user_data = r.user_data)
    (hpl : r'.progressive.length = 3) (hp : ∀ x ∈ r'.progressive, x = 0 ∨ x = 1)
    (hcl : r'.correction.length = 3) (hc : ∀ row ∈ r'.correction, row.length = 2 ∧ ∀ x ∈ row, 0 ≤ x ∧ x ≤ 2) :
    CInv r' := by
  refine ⟨?_, ?_, ?_, ?_, ?_, ?_, ?_, ?_, hpl, hp, hcl, hc, ?_, ?_⟩
  · rw [hb]; exact hI.used
  · rw [hb]; exact hI.temp
  · rw [hb]; exact hI.ext
  · rw [hps]; exact hI.ps
  · rw [hrt]; exact hI.rtLen
  · rw [hrt]; exact hI.rt0
  · rw [hrt]; exact hI.rt1
  · rw [hptyn]; exact hI.ptyn
  · rw [hl]; exact hI.lastRt
  · rw [hu]; exact hI.ud

theorem tb_len3 {α : Type} (l : List α) (h : l.length = 3) : ∃ a b c, l = [a, b, c] := by
  match l, h with
  | [a, b, c], _ => exact ⟨a, b, c, rfl⟩

theorem tb_len2 {α : Type} (l : List α) (h : l.length = 2) : ∃ a b, l = [a, b] := by
  match l, h with
  | [a, b], _ => exact ⟨a, b, rfl⟩

theorem set_text_progressive_refines (r : C_librdsparser) (hI : CInv r) (t : TextId) (v : Bool) :
    abs (c_rdsparser_set_text_progressive r (textIdx t) (b2i v)) = { abs r with set := (abs r).set.setProg t v } ∧
    CInv (c_rdsparser_set_text_progressive r (textIdx t) (b2i v)) := by
  obtain ⟨a, b, c, hp⟩ := tb_len3 r.progressive hI.progLen
  constructor
  · cases t <;> simp [c_rdsparser_set_text_progressive, abs, absCbs, absSet, textIdx, Settings.setProg, hp,
      listSet, getI, tb_b2i_bne]
  · refine tb_inv_of_settings r (c_rdsparser_set_text_progressive r (textIdx t) (b2i v)) hI rfl rfl rfl rfl rfl rfl
      ?_ ?_ ?_ ?_
    · simp [c_rdsparser_set_text_progressive, hI.progLen]
    · intro x hx
      simp only [c_rdsparser_set_text_progressive, listSet] at hx
      rcases List.mem_or_eq_of_mem_set hx with h | h
      · exact hI.prog x h
      · subst h; cases v <;> simp
    · exact hI.corrLen
    · exact hI.corr

theorem tb_clamp (v : Nat) (hv : v < 256) :
    u8 (if (v : Int) < 2 then (v : Int) else 2) = ((min v 2 : Nat) : Int) := by
  by_cases h : (v : Int) < 2
  · have : min v 2 = v := by omega
    simp only [h, if_true, this]; unfold u8; omega
  · have : min v 2 = 2 := by omega
    simp only [h, if_false, this]; rfl

theorem set_text_correction_refines (r : C_librdsparser) (hI : CInv r) (t : TextId) (k : BlockType) (v : Nat)
    (hv : v < 256) :
    abs (c_rdsparser_set_text_correction r (textIdx t) (typeIdx k) (v : Int)) =
      { abs r with set := (abs r).set.setCorr t k v } ∧
    CInv (c_rdsparser_set_text_correction r (textIdx t) (typeIdx k) (v : Int)) := by
  obtain ⟨r0, r1, r2, hc⟩ := tb_len3 r.correction hI.corrLen
  have hrows := hI.corr
  rw [hc] at hrows
  obtain ⟨a0, b0, h0⟩ := tb_len2 r0 (hrows r0 (by simp)).1
  obtain ⟨a1, b1, h1⟩ := tb_len2 r1 (hrows r1 (by simp)).1
  obtain ⟨a2, b2, h2⟩ := tb_len2 r2 (hrows r2 (by simp)).1
  subst h0 h1 h2
  have hm : (0 : Int) ≤ ((min v 2 : Nat) : Int) ∧ ((min v 2 : Nat) : Int) ≤ 2 := by omega
  constructor
  · cases t <;> cases k <;> simp [c_rdsparser_set_text_correction, abs, absCbs, absSet, textIdx, typeIdx,
      Settings.setCorr, hc, listSet, getI, getL, tb_clamp v hv]
  · refine tb_inv_of_settings r (c_rdsparser_set_text_correction r (textIdx t) (typeIdx k) (v : Int)) hI
      rfl rfl rfl rfl rfl rfl hI.progLen hI.prog ?_ ?_
    · simp [c_rdsparser_set_text_correction, hI.corrLen]
    · have hr0 := hrows _ (List.mem_cons_self)
      have hr1 := hrows _ (List.mem_cons_of_mem _ List.mem_cons_self)
      have hr2 := hrows _ (List.mem_cons_of_mem _ (List.mem_cons_of_mem _ List.mem_cons_self))
      simp only [List.mem_cons, List.not_mem_nil, or_false, forall_eq_or_imp, forall_eq] at hr0 hr1 hr2
      cases t <;> cases k <;>
        simp [c_rdsparser_set_text_correction, textIdx, typeIdx, hc, listSet, getL, tb_clamp v hv, hm,
          hr0, hr1, hr2]

/-! ## the seven buffered fields -/

theorem tb_absLog_snoc (log : CLog) (e : CEvent C_librdsparser) :
    absLog (log ++ [e]) = absLog log ++ (absEvent e).toList := by
  unfold absLog
  rw [List.filterMap_append]
  cases h : absEvent e <;> simp [List.filterMap, h]

/-- the model's `setField` when the update is rejected (value parked in `temp`) -/
theorem tb_setField_reject (s : State) (f : Fld) (v : Int)
    (h : (decide (s.used.get f = v) || (s.set.ext && s.temp.get f != v)) = true) :
    setField s f v = ({ s with temp := s.temp.put f v }, []) := by
  have hb : bufUpdate s.set.ext (s.used.get f) (s.temp.get f) v = (s.used.get f, v, false) := by
    unfold bufUpdate; rw [if_pos h]
  unfold setField
  simp only [hb]
  cases f <;> rfl

/-- the model's `setField` when the update is accepted -/
theorem tb_setField_accept (s : State) (f : Fld) (v : Int)
    (h : ¬ (decide (s.used.get f = v) || (s.set.ext && s.temp.get f != v)) = true) :
    setField s f v =
      ({ s with used := s.used.put f v }, emit { s with used := s.used.put f v } f.cb f.ev) := by
  have hb : bufUpdate s.set.ext (s.used.get f) (s.temp.get f) v = (v, s.temp.get f, true) := by
    unfold bufUpdate; rw [if_neg h]
  unfold setField
  simp only [hb]
  cases f <;> rfl

theorem tb_emit (s : State) (c : Cb) (k : EvKind) :
    emit s c k = if s.cbs.getD c.idx false then [⟨k, s.ud, s⟩] else [] := rfl

/-- `CInv` when only the buffer changes -/
theorem tb_inv_of_buffer (r : C_librdsparser) (b : C_rdsparser_buffer) (hI : CInv r)
    (hu : DataOk b.data_used) (ht : DataOk b.data_temp) (he : b.extended_check = r.buffer.extended_check) :
    CInv { r with buffer := b } :=
  ⟨hu, ht, by rw [he]; exact hI.ext, hI.ps, hI.rtLen, hI.rt0, hI.rt1, hI.ptyn, hI.progLen, hI.prog, hI.corrLen,
    hI.corr, hI.lastRt, hI.ud⟩

/-- the AF part of `DataOk` -/
def tb_AfOk (a : C_rdsparser_af) : Prop := a.buffer.length = 26 ∧ ∀ x ∈ a.buffer, 0 ≤ x ∧ x < 256

/-- the scalar part of `DataOk` -/
def tb_ScalOk (d : C_rdsparser_buffer_data) : Prop :=
  -1 ≤ d.pi ∧ d.pi < 65536 ∧ -1 ≤ d.pty ∧ d.pty < 32 ∧ -1 ≤ d.tp ∧ d.tp < 2 ∧ -1 ≤ d.ta ∧ d.ta < 2 ∧
  -1 ≤ d.ms ∧ d.ms < 2 ∧ -1 ≤ d.ecc ∧ d.ecc < 256 ∧ 0 ≤ d.country ∧ d.country < 256

theorem tb_dataOk_iff (d : C_rdsparser_buffer_data) : DataOk d ↔ tb_ScalOk d ∧ tb_AfOk d.af := by
  unfold DataOk tb_ScalOk tb_AfOk
  constructor
  · rintro ⟨h1, h2, h3, h4, h5, h6, h7, h8, h9, h10, h11, h12, h13, h14, h15, h16⟩
    exact ⟨⟨h1, h2, h3, h4, h5, h6, h7, h8, h9, h10, h11, h12, h13, h14⟩, h15, h16⟩
  · rintro ⟨⟨h1, h2, h3, h4, h5, h6, h7, h8, h9, h10, h11, h12, h13, h14⟩, h15, h16⟩
    exact ⟨h1, h2, h3, h4, h5, h6, h7, h8, h9, h10, h11, h12, h13, h14, h15, h16⟩

set_option hygiene false in
/-- The proof of one case of `set_field_refines`: `SET`/`UPD` are the translated setter and buffer-update
function, `F` the model field, `fld`/`cb`/`nm` the C field, callback slot and callback name. Expects
`r hI v hv log` in the context. -/
macro "tb_field_tac" SET:ident UPD:ident F:term:max fld:ident cb:ident nm:str : tactic => `(tactic| (
  have hused := hI.used
  have htemp := hI.temp
  simp only [FldRange] at hv
  by_cases h : (decide ((abs r).used.get $F = v) || ((abs r).set.ext && (abs r).temp.get $F != v)) = true
  · have hc : (r.buffer.data_used.$fld:ident == v ||
        r.buffer.extended_check != 0 && r.buffer.data_temp.$fld:ident != v) = true := h
    have e : $SET r v log =
        ({ r with buffer := { r.buffer with data_temp := { r.buffer.data_temp with $fld:ident := v } } }, log) := by
      simp only [$SET:ident, $UPD:ident, hc, if_true]
      simp
    rw [tb_setField_reject _ _ _ h, e]
    refine ⟨rfl, by simp, tb_inv_of_buffer r _ hI hused ?_ rfl⟩
    rw [tb_dataOk_iff] at htemp ⊢
    refine ⟨?_, htemp.2⟩
    have := htemp.1
    unfold tb_ScalOk at this ⊢
    simp only; omega
  · have hc : ¬ (r.buffer.data_used.$fld:ident == v ||
        r.buffer.extended_check != 0 && r.buffer.data_temp.$fld:ident != v) = true := h
    have e : $SET r v log =
        ({ r with buffer := { r.buffer with data_used := { r.buffer.data_used with $fld:ident := v } } },
         if r.$cb:ident != 0 then log ++ [⟨$nm, [r.user_data],
           { r with buffer := { r.buffer with data_used := { r.buffer.data_used with $fld:ident := v } } }⟩]
         else log) := by
      simp only [$SET:ident, $UPD:ident, hc, if_false]
      simp
    rw [tb_setField_accept _ _ _ h, e]
    refine ⟨rfl, ?_, tb_inv_of_buffer r _ hI ?_ htemp rfl⟩
    · show absLog (if r.$cb:ident != 0 then _ else log) = _
      rw [tb_emit]
      show _ = absLog log ++ (if (r.$cb:ident != 0) = true then _ else [])
      cases hcb : (r.$cb:ident != 0)
      · simp
      · simp only [if_true, tb_absLog_snoc]
        rfl
    · rw [tb_dataOk_iff] at hused ⊢
      refine ⟨?_, hused.2⟩
      have := hused.1
      unfold tb_ScalOk at this ⊢
      simp only; omega))

/-- the seven `rdsparser_set_<field>`: state, callback log and invariant -/
theorem set_field_refines (f : Fld) (r : C_librdsparser) (hI : CInv r) (v : Int) (hv : FldRange f v) (log : CLog) :
    let out := cSetField f r v log
    abs out.1 = (setField (abs r) f v).1 ∧ absLog out.2 = absLog log ++ (setField (abs r) f v).2 ∧ CInv out.1 := by
  intro out
  cases f <;> simp only [out, cSetField]
  · tb_field_tac c_rdsparser_set_pi c_rdsparser_buffer_update_pi Fld.pi pi callback_pi "pi"
  · tb_field_tac c_rdsparser_set_pty c_rdsparser_buffer_update_pty Fld.pty pty callback_pty "pty"
  · tb_field_tac c_rdsparser_set_tp c_rdsparser_buffer_update_tp Fld.tp tp callback_tp "tp"
  · tb_field_tac c_rdsparser_set_ta c_rdsparser_buffer_update_ta Fld.ta ta callback_ta "ta"
  · tb_field_tac c_rdsparser_set_ms c_rdsparser_buffer_update_ms Fld.ms ms callback_ms "ms"
  · tb_field_tac c_rdsparser_set_ecc c_rdsparser_buffer_update_ecc Fld.ecc ecc callback_ecc "ecc"
  · tb_field_tac c_rdsparser_set_country c_rdsparser_buffer_update_country Fld.country country callback_country "country"

/-! ## `rdsparser_add_af` -/

theorem tb_af_set_ok (af : C_rdsparser_af) (v : Int) (h : tb_AfOk af) : tb_AfOk (c_rdsparser_af_set af v).2 := by
  unfold c_rdsparser_af_set
  split
  · refine ⟨by simp [h.1], ?_⟩
    intro x hx
    simp only [listSet] at hx
    rcases List.mem_or_eq_of_mem_set hx with hx | hx
    · exact h.2 x hx
    · subst hx; exact u8_range _
  · exact h

theorem tb_freq (v : Nat) (hv : v < 256) : (u32 (87500 + u32 ((v : Int) * 100))).toNat = 87500 + v * 100 := by
  unfold u32; omega

/-- `rdsparser_buffer_add_af` with the AF tests read through `bitsOf` -/
theorem tb_buffer_add_af (b : C_rdsparser_buffer) (v : Nat) :
    c_rdsparser_buffer_add_af b (v : Int) =
      if afGet (bitsOf b.data_used.af.buffer) v = true then ((0 : Int), b)
      else if (b.extended_check != 0 && !afGet (bitsOf b.data_temp.af.buffer) v) = true then
        ((0 : Int), { b with data_temp := { b.data_temp with af := (c_rdsparser_af_set b.data_temp.af v).2 } })
      else
        ((c_rdsparser_af_set b.data_used.af v).1,
          { b with data_used := { b.data_used with af := (c_rdsparser_af_set b.data_used.af v).2 } }) := by
  unfold c_rdsparser_buffer_add_af
  rw [af_get_eq, af_get_eq]
  simp only [tb_b2i_bne]
  -- whichever way the C writes the first test (`if (!get) {…} return false` or `if (get) return false; …`)
  all_goals (cases afGet (bitsOf b.data_used.af.buffer) v <;> rfl)

theorem add_af_refines (r : C_librdsparser) (hI : CInv r) (v : Nat) (hv : v < 256) (log : CLog) :
    let out := c_rdsparser_add_af r (v : Int) log
    abs out.1 = (addAf (abs r) v).1 ∧ absLog out.2 = absLog log ++ (addAf (abs r) v).2 ∧ CInv out.1 := by
  intro out
  have hused := hI.used
  have htemp := hI.temp
  rw [tb_dataOk_iff] at hused htemp
  have hgu := af_get_eq r.buffer.data_used.af v
  have hgt := af_get_eq r.buffer.data_temp.af v
  have hsu := af_set_eq r.buffer.data_used.af v hused.2.1
  have hst := af_set_eq r.buffer.data_temp.af v htemp.2.1
  by_cases hA : afGet (bitsOf r.buffer.data_used.af.buffer) v = true
  · -- already present
    have e : out = (r, log) := by
      have hb := tb_buffer_add_af r.buffer v
      rw [if_pos hA] at hb
      simp only [out, c_rdsparser_add_af, hb]
      simp
    have m : addAf (abs r) v = (abs r, []) := by
      unfold addAf; rw [if_pos (show afGet (abs r).used.af v = true from hA)]
    rw [e, m]
    exact ⟨rfl, by simp, hI⟩
  · by_cases hB : ((r.buffer.extended_check != 0) && !afGet (bitsOf r.buffer.data_temp.af.buffer) v) = true
    · -- parked in temp
      have e : out = ({ r with buffer := { r.buffer with data_temp :=
          { r.buffer.data_temp with af := (c_rdsparser_af_set r.buffer.data_temp.af v).2 } } }, log) := by
        have hb := tb_buffer_add_af r.buffer v
        rw [if_neg hA, if_pos hB] at hb
        simp only [out, c_rdsparser_add_af, hb]
        simp
      have m : addAf (abs r) v =
          ({ abs r with temp := { (abs r).temp with af := (afSet (abs r).temp.af v).1 } }, []) := by
        unfold addAf
        rw [if_neg (show ¬ afGet (abs r).used.af v = true from hA),
          if_pos (show ((abs r).set.ext && !afGet (abs r).temp.af v) = true from hB)]
      rw [e, m]
      refine ⟨?_, by simp, tb_inv_of_buffer r _ hI hI.used ?_ rfl⟩
      · simp only [abs, absData, absSet, absCbs, hst.2.1]
      · rw [tb_dataOk_iff]; exact ⟨htemp.1, tb_af_set_ok _ _ htemp.2⟩
    · -- stored in used
      have e : out = ({ r with buffer := { r.buffer with data_used :=
            { r.buffer.data_used with af := (c_rdsparser_af_set r.buffer.data_used.af v).2 } } },
          if (afSet (bitsOf r.buffer.data_used.af.buffer) v).2 = true then
            if r.callback_af != 0 then
              log ++ [⟨"af", [u32 (87500 + u32 ((v : Int) * 100)), r.user_data],
                { r with buffer := { r.buffer with data_used :=
                  { r.buffer.data_used with af := (c_rdsparser_af_set r.buffer.data_used.af v).2 } } }⟩]
            else log
          else log) := by
        have hb := tb_buffer_add_af r.buffer v
        rw [if_neg hA, if_neg hB, hsu.1] at hb
        simp only [out, c_rdsparser_add_af, hb, tb_b2i_bne]
      have m : addAf (abs r) v =
          ({ abs r with used := { (abs r).used with af := (afSet (abs r).used.af v).1 } },
           if (afSet (abs r).used.af v).2 then
             emit { abs r with used := { (abs r).used with af := (afSet (abs r).used.af v).1 } } .af
               (.af (87500 + v * 100))
           else []) := by
        unfold addAf
        rw [if_neg (show ¬ afGet (abs r).used.af v = true from hA),
          if_neg (show ¬ ((abs r).set.ext && !afGet (abs r).temp.af v) = true from hB)]
      rw [e, m]
      have hst' : abs { r with buffer := { r.buffer with data_used :=
            { r.buffer.data_used with af := (c_rdsparser_af_set r.buffer.data_used.af v).2 } } } =
          { abs r with used := { (abs r).used with af := (afSet (abs r).used.af v).1 } } := by
        simp only [abs, absData, absSet, absCbs, hsu.2.1]
      refine ⟨hst', ?_, tb_inv_of_buffer r _ hI ?_ hI.temp rfl⟩
      · show absLog (if (afSet (bitsOf r.buffer.data_used.af.buffer) v).2 = true then _ else log) =
          absLog log ++ (if (afSet (bitsOf r.buffer.data_used.af.buffer) v).2 = true then _ else [])
        cases hacc : (afSet (bitsOf r.buffer.data_used.af.buffer) v).2
        · simp
        · simp only [if_true]
          rw [tb_emit]
          show absLog (if r.callback_af != 0 then _ else log) =
            absLog log ++ (if (r.callback_af != 0) = true then _ else [])
          cases hcb : (r.callback_af != 0)
          · simp
          · simp only [if_true, tb_absLog_snoc]
            have hev : absEvent ⟨"af", [u32 (87500 + u32 ((v : Int) * 100)), r.user_data],
                { r with buffer := { r.buffer with data_used :=
                  { r.buffer.data_used with af := (c_rdsparser_af_set r.buffer.data_used.af v).2 } } }⟩ =
                some ⟨.af (u32 (87500 + u32 ((v : Int) * 100))).toNat, r.user_data.toNat,
                  abs { r with buffer := { r.buffer with data_used :=
                  { r.buffer.data_used with af := (c_rdsparser_af_set r.buffer.data_used.af v).2 } } }⟩ := rfl
            rw [hev, tb_freq v hv, hst']
            rfl
      · rw [tb_dataOk_iff]; exact ⟨hused.1, tb_af_set_ok _ _ hused.2⟩

/-! ## `rdsparser_clear` / `rdsparser_init` -/

theorem tb_fill {α : Type} (v : α) (l : List α) (k : Nat) (hk : k ≤ l.length) :
    (List.range k).foldl (fun (l : List α) (i : Nat) => l.set i v) l = List.replicate k v ++ l.drop k := by
  induction k with
  | zero => simp
  | succ k ih =>
    rw [List.range_succ, List.foldl_append, ih (by omega)]
    simp only [List.foldl_cons, List.foldl_nil]
    rw [List.set_append_right _ _ (by simp), List.length_replicate, Nat.sub_self,
      List.drop_eq_getElem_cons (by omega : k < l.length), List.set_cons_zero, List.replicate_succ',
      List.append_assoc]
    rfl

theorem tb_fill_all {α : Type} (v : α) (l : List α) (n : Nat) (h : l.length = n) :
    (List.range n).foldl (fun (l : List α) (i : Nat) => l.set i v) l = List.replicate n v := by
  subst h
  rw [tb_fill v l l.length (Nat.le_refl _)]; simp

/-- the loop of `rdsparser_af_clear` acts on the buffer alone -/
theorem tb_af_clear_fold (af : C_rdsparser_af) (k : Nat) :
    (List.range k).foldl (fun (af : C_rdsparser_af) (i : Nat) => { af with buffer := listSet af.buffer (i : Int) 0 }) af =
      { buffer := (List.range k).foldl (fun (l : List Int) (i : Nat) => l.set i 0) af.buffer } := by
  induction k with
  | zero => rfl
  | succ k ih =>
    rw [List.range_succ, List.foldl_append, List.foldl_append, ih]
    simp [listSet]

theorem tb_af_clear (af : C_rdsparser_af) (h : af.buffer.length = 26) :
    c_rdsparser_af_clear af = { buffer := List.replicate 26 0 } := by
  unfold c_rdsparser_af_clear
  rw [show (26 : Int) = ((26 : Nat) : Int) from rfl, forRange_eq, tb_af_clear_fold, tb_fill_all 0 _ 26 h]

/-- the loop of `rdsparser_string_clear` acts on the two arrays separately -/
theorem tb_string_clear_fold (s : CStr) (k : Nat) :
    (List.range k).foldl (fun (string : CStr) (i : Nat) =>
        let string : CStr := { string with content := listSet string.content (i : Int) 32 }
        { string with errors := listSet string.errors (i : Int) 10 }) s =
      { s with content := (List.range k).foldl (fun (l : List Int) (i : Nat) => l.set i 32) s.content,
               errors := (List.range k).foldl (fun (l : List Int) (i : Nat) => l.set i 10) s.errors } := by
  induction k with
  | zero => rfl
  | succ k ih =>
    rw [List.range_succ, List.foldl_append, List.foldl_append, List.foldl_append, ih]
    simp [listSet]

theorem tb_string_clear_eq (s : CStr) (cap : Nat) (h : StrOk s cap) :
    c_rdsparser_string_clear s = { s with content := List.replicate cap 32, errors := List.replicate cap 10 } := by
  obtain ⟨h1, h2, h3, h4, h5, h6⟩ := h
  unfold c_rdsparser_string_clear
  simp only [h1]
  rw [forRange_eq, tb_string_clear_fold, tb_fill_all 32 _ cap h2, tb_fill_all 10 _ cap h3, h1]

/-- `rdsparser_string_clear` is the model's `Text.cleared` and keeps the string well-formed -/
theorem tb_string_clear (s : CStr) (cap : Nat) (h : StrOk s cap) :
    absText (c_rdsparser_string_clear s) = (absText s).cleared ∧ StrOk (c_rdsparser_string_clear s) cap := by
  rw [tb_string_clear_eq s cap h]
  obtain ⟨h1, h2, h3, h4, h5, h6⟩ := h
  constructor
  · unfold absText Text.cleared
    simp only [List.zipWith_replicate, List.map_const', List.length_zipWith, h2, h3, Nat.min_self]
    rfl
  · refine ⟨h1, by simp, by simp, h4, ?_, ?_⟩
    · intro c hc; simp only [List.mem_replicate] at hc; omega
    · intro c hc; simp only [List.mem_replicate] at hc; omega

/-- the cleared buffer data -/
def tb_dataCleared : C_rdsparser_buffer_data := ⟨-1, -1, -1, -1, -1, -1, 0, ⟨List.replicate 26 0⟩⟩

theorem tb_data_clear (d : C_rdsparser_buffer_data) (h : d.af.buffer.length = 26) :
    c_rdsparser_buffer_data_clear d = tb_dataCleared := by
  unfold c_rdsparser_buffer_data_clear
  simp only [tb_af_clear d.af h]
  rfl

theorem tb_bits_zero : bitsOf (List.replicate 26 0) = List.replicate afBits false := by decide +kernel

theorem tb_absData_cleared : absData tb_dataCleared = Scalars.cleared := by
  unfold absData tb_dataCleared Scalars.cleared
  simp only [tb_bits_zero]

theorem tb_dataOk_cleared : DataOk tb_dataCleared := by
  unfold DataOk tb_dataCleared
  refine ⟨by decide, by decide, by decide, by decide, by decide, by decide, by decide, by decide, by decide,
    by decide, by decide, by decide, by decide, by decide, by simp, ?_⟩
  intro x hx; simp only [List.mem_replicate] at hx; omega

theorem tb_buffer_clear (b : C_rdsparser_buffer) (hu : b.data_used.af.buffer.length = 26)
    (ht : b.data_temp.af.buffer.length = 26) :
    c_rdsparser_buffer_clear b = ⟨tb_dataCleared, tb_dataCleared, b.extended_check⟩ := by
  unfold c_rdsparser_buffer_clear
  simp only [tb_data_clear _ hu, tb_data_clear _ ht]

theorem tb_getS0 (a b : CStr) : getS [a, b] 0 = a := rfl
theorem tb_getS1 (a b : CStr) : getS [a, b] 1 = b := rfl

/-- `rdsparser_clear` with the list of RadioText buffers made explicit: on every modelled field the result is … (a field
the structure may have gained since — reset here or not — is outside the statement) -/
theorem tb_clear_eq (r : C_librdsparser) (a b : CStr) (hrt : r.rt = [a, b])
    (hu : r.buffer.data_used.af.buffer.length = 26) (ht : r.buffer.data_temp.af.buffer.length = 26) :
    SameModelled (c_rdsparser_clear r)
      { r with buffer := ⟨tb_dataCleared, tb_dataCleared, r.buffer.extended_check⟩,
               ps := c_rdsparser_string_clear r.ps,
               rt := [c_rdsparser_string_clear a, c_rdsparser_string_clear b],
               ptyn := c_rdsparser_string_clear r.ptyn, last_rt_flag := -1 } := by
  unfold c_rdsparser_clear
  simp only [tb_buffer_clear _ hu ht, hrt]
  exact ⟨rfl, rfl, rfl, rfl, rfl, rfl, rfl, rfl, rfl, rfl, rfl, rfl, rfl, rfl, rfl, rfl, rfl, rfl, rfl, rfl⟩

theorem clear_refines (r : C_librdsparser) (hI : CInv r)
    (hclr : ∀ (s : CStr) (cap : Nat), StrOk s cap →
      absText (c_rdsparser_string_clear s) = (absText s).cleared ∧ StrOk (c_rdsparser_string_clear s) cap) :
    abs (c_rdsparser_clear r) = clearState (abs r) ∧ CInv (c_rdsparser_clear r) := by
  obtain ⟨a, b, hrt⟩ := tb_len2 r.rt hI.rtLen
  have ha := hI.rt0
  have hb := hI.rt1
  rw [hrt, tb_getS0] at ha
  rw [hrt, tb_getS1] at hb
  have hused := hI.used
  have htemp := hI.temp
  rw [tb_dataOk_iff] at hused htemp
  obtain ⟨p1, p2⟩ := hclr r.ps 8 hI.ps
  obtain ⟨a1, a2⟩ := hclr a 64 ha
  obtain ⟨b1, b2⟩ := hclr b 64 hb
  obtain ⟨n1, n2⟩ := hclr r.ptyn 8 hI.ptyn
  have hsm := tb_clear_eq r a b hrt hused.2.1 htemp.2.1
  rw [hsm.abs_eq]
  refine ⟨?_, hsm.inv ?_⟩
  · simp only [abs, clearState, absSet, absCbs, tb_getS0, tb_getS1, hrt, tb_absData_cleared, p1, a1, b1, n1,
      p2.2.2.2.1, a2.2.2.2.1, b2.2.2.2.1, n2.2.2.2.1, hI.ps.2.2.2.1, ha.2.2.2.1, hb.2.2.2.1, hI.ptyn.2.2.2.1]
  · exact ⟨tb_dataOk_cleared, tb_dataOk_cleared, hI.ext, p2, rfl, a2, b2, n2, hI.progLen, hI.prog, hI.corrLen,
      hI.corr, Or.inl rfl, hI.ud⟩

/-- the state `rdsparser_init` hands to `rdsparser_clear`: zeroed, buffer initialised, the four sizes set -/
def tb_pre : C_librdsparser :=
  { C_librdsparser.zero with
    buffer := ⟨tb_dataCleared, tb_dataCleared, 0⟩,
    ps := { CStr.zero 8 with size := 8 },
    rt := [{ CStr.zero 64 with size := 64 }, { CStr.zero 64 with size := 64 }],
    ptyn := { CStr.zero 8 with size := 8 } }

theorem tb_init_eq (r : C_librdsparser) : c_rdsparser_init r = c_rdsparser_clear tb_pre := by
  have hz : (C_rdsparser_buffer.zero).data_used.af.buffer.length = 26 := by decide
  have hz' : (C_rdsparser_buffer.zero).data_temp.af.buffer.length = 26 := by decide
  unfold c_rdsparser_init c_rdsparser_buffer_init
  simp only [show C_librdsparser.zero.buffer = C_rdsparser_buffer.zero from rfl, tb_buffer_clear _ hz hz']
  rfl

theorem tb_strOk_zero (cap : Nat) : StrOk { CStr.zero cap with size := cap } cap := by
  refine ⟨rfl, by simp [CStr.zero], by simp [CStr.zero], rfl, ?_, ?_⟩
  · intro c hc; simp only [CStr.zero, List.mem_replicate] at hc; omega
  · intro c hc; simp only [CStr.zero, List.mem_replicate] at hc; omega

theorem tb_inv_pre : CInv tb_pre := by
  refine ⟨tb_dataOk_cleared, tb_dataOk_cleared, Or.inl rfl, tb_strOk_zero 8, rfl, tb_strOk_zero 64,
    tb_strOk_zero 64, tb_strOk_zero 8, rfl, ?_, rfl, ?_, Or.inr (Or.inl rfl), Int.le_refl 0⟩
  · intro x hx
    simp only [tb_pre, C_librdsparser.zero, List.mem_replicate] at hx
    exact Or.inl hx.2
  · intro row hrow
    simp only [tb_pre, C_librdsparser.zero, List.mem_replicate] at hrow
    rw [hrow.2]
    refine ⟨rfl, ?_⟩
    intro x hx; simp only [List.mem_replicate] at hx; omega

/-- everything `rdsparser_clear` leaves alone is already as in `initState` -/
theorem tb_clearState_pre : clearState (abs tb_pre) = initState := by
  decide +kernel

theorem init_refines (r : C_librdsparser)
    (hclr : ∀ (s : CStr) (cap : Nat), StrOk s cap →
      absText (c_rdsparser_string_clear s) = (absText s).cleared ∧ StrOk (c_rdsparser_string_clear s) cap) :
    abs (c_rdsparser_init r) = initState ∧ CInv (c_rdsparser_init r) := by
  rw [tb_init_eq]
  have h := clear_refines tb_pre tb_inv_pre hclr
  rw [tb_clearState_pre] at h
  exact h

/-- hypothesis-free versions (with `tb_string_clear` proved above) -/
theorem tb_clear_refines (r : C_librdsparser) (hI : CInv r) :
    abs (c_rdsparser_clear r) = clearState (abs r) ∧ CInv (c_rdsparser_clear r) :=
  clear_refines r hI tb_string_clear

theorem tb_init_refines (r : C_librdsparser) :
    abs (c_rdsparser_init r) = initState ∧ CInv (c_rdsparser_init r) :=
  init_refines r tb_string_clear

end RDS.C

#print axioms RDS.C.set_field_refines
#print axioms RDS.C.add_af_refines
#print axioms RDS.C.init_refines
#print axioms RDS.C.clear_refines
#print axioms RDS.C.set_extended_check_refines
#print axioms RDS.C.set_text_correction_refines
#print axioms RDS.C.set_text_progressive_refines
#print axioms RDS.C.set_user_data_refines
#print axioms RDS.C.register_refines
#print axioms RDS.C.tb_string_clear
#print axioms RDS.C.tb_init_refines
#print axioms RDS.C.tb_clear_refines
