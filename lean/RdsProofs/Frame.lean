import RdsModel
/-!
# RdsProofs.Frame — frame lemmas: which part of the state each handler can touch

All by `rfl`/case analysis; tagged `@[simp]` so that later proofs never unfold the setters.
-/
namespace RDS

/-! ## Scalars.get / put -/
@[simp] theorem Scalars.get_put_same (x : Scalars) (f : Fld) (v : Int) : (x.put f v).get f = v := by
  cases f <;> rfl

theorem Scalars.get_put_ne (x : Scalars) (f f' : Fld) (v : Int) (h : f' ≠ f) :
    (x.put f v).get f' = x.get f' := by
  cases f <;> cases f' <;> first | rfl | exact absurd rfl h

@[simp] theorem Scalars.put_af (x : Scalars) (f : Fld) (v : Int) : (x.put f v).af = x.af := by
  cases f <;> rfl

/-! ## bufUpdate -/
theorem bufUpdate_normal (u t v : Int) : bufUpdate false u t v = if u = v then (u, v, false) else (v, t, true) := by
  simp [bufUpdate]

@[simp] theorem bufUpdate_fst_normal (u t v : Int) : (bufUpdate false u t v).1 = v := by
  simp only [bufUpdate]; split <;> simp_all

theorem bufUpdate_changed_iff (ext : Bool) (u t v : Int) :
    (bufUpdate ext u t v).2.2 = true ↔ (bufUpdate ext u t v).1 ≠ u := by
  simp only [bufUpdate]
  split
  · simp
  · rename_i h
    simp only [Bool.or_eq_true, decide_eq_true_eq, Bool.and_eq_true, bne_iff_ne, ne_eq, not_or] at h
    simp only [ne_eq, true_iff]
    exact fun e => h.1 e.symm

/-! ## setField -/
section setField
variable (s : State) (f : Fld) (v : Int)
@[simp] theorem setField_set : (setField s f v).1.set = s.set := rfl
@[simp] theorem setField_ps : (setField s f v).1.ps = s.ps := rfl
@[simp] theorem setField_rt0 : (setField s f v).1.rt0 = s.rt0 := rfl
@[simp] theorem setField_rt1 : (setField s f v).1.rt1 = s.rt1 := rfl
@[simp] theorem setField_ptyn : (setField s f v).1.ptyn = s.ptyn := rfl
@[simp] theorem setField_termPs : (setField s f v).1.termPs = s.termPs := rfl
@[simp] theorem setField_termRt0 : (setField s f v).1.termRt0 = s.termRt0 := rfl
@[simp] theorem setField_termRt1 : (setField s f v).1.termRt1 = s.termRt1 := rfl
@[simp] theorem setField_termPtyn : (setField s f v).1.termPtyn = s.termPtyn := rfl
@[simp] theorem setField_lastRt : (setField s f v).1.lastRt = s.lastRt := rfl
@[simp] theorem setField_cbs : (setField s f v).1.cbs = s.cbs := rfl
@[simp] theorem setField_ud : (setField s f v).1.ud = s.ud := rfl
@[simp] theorem setField_used_af : (setField s f v).1.used.af = s.used.af := by simp [setField]
@[simp] theorem setField_temp_af : (setField s f v).1.temp.af = s.temp.af := by simp [setField]
@[simp] theorem setField_rt (fl : Nat) : (setField s f v).1.rt fl = s.rt fl := rfl
@[simp] theorem setField_registered (c : Cb) : (setField s f v).1.registered c = s.registered c := rfl

theorem setField_used_get :
    (setField s f v).1.used.get f = (bufUpdate s.set.ext (s.used.get f) (s.temp.get f) v).1 := by
  simp [setField]
theorem setField_temp_get :
    (setField s f v).1.temp.get f = (bufUpdate s.set.ext (s.used.get f) (s.temp.get f) v).2.1 := by
  simp [setField]
theorem setField_used_get_ne (f' : Fld) (h : f' ≠ f) : (setField s f v).1.used.get f' = s.used.get f' := by
  simp [setField, Scalars.get_put_ne _ _ _ _ h]
theorem setField_temp_get_ne (f' : Fld) (h : f' ≠ f) : (setField s f v).1.temp.get f' = s.temp.get f' := by
  simp [setField, Scalars.get_put_ne _ _ _ _ h]
end setField

/-! ## addAf -/
section addAf
variable (s : State) (v : Nat)
@[simp] theorem addAf_set : (addAf s v).1.set = s.set := by unfold addAf; (repeat' split) <;> rfl
@[simp] theorem addAf_ps : (addAf s v).1.ps = s.ps := by unfold addAf; (repeat' split) <;> rfl
@[simp] theorem addAf_rt0 : (addAf s v).1.rt0 = s.rt0 := by unfold addAf; (repeat' split) <;> rfl
@[simp] theorem addAf_rt1 : (addAf s v).1.rt1 = s.rt1 := by unfold addAf; (repeat' split) <;> rfl
@[simp] theorem addAf_ptyn : (addAf s v).1.ptyn = s.ptyn := by unfold addAf; (repeat' split) <;> rfl
@[simp] theorem addAf_termPs : (addAf s v).1.termPs = s.termPs := by unfold addAf; (repeat' split) <;> rfl
@[simp] theorem addAf_termRt0 : (addAf s v).1.termRt0 = s.termRt0 := by unfold addAf; (repeat' split) <;> rfl
@[simp] theorem addAf_termRt1 : (addAf s v).1.termRt1 = s.termRt1 := by unfold addAf; (repeat' split) <;> rfl
@[simp] theorem addAf_termPtyn : (addAf s v).1.termPtyn = s.termPtyn := by unfold addAf; (repeat' split) <;> rfl
@[simp] theorem addAf_lastRt : (addAf s v).1.lastRt = s.lastRt := by unfold addAf; (repeat' split) <;> rfl
@[simp] theorem addAf_cbs : (addAf s v).1.cbs = s.cbs := by unfold addAf; (repeat' split) <;> rfl
@[simp] theorem addAf_ud : (addAf s v).1.ud = s.ud := by unfold addAf; (repeat' split) <;> rfl
@[simp] theorem addAf_used_get (f : Fld) : (addAf s v).1.used.get f = s.used.get f := by
  unfold addAf; (repeat' split) <;> cases f <;> rfl
@[simp] theorem addAf_temp_get (f : Fld) : (addAf s v).1.temp.get f = s.temp.get f := by
  unfold addAf; (repeat' split) <;> cases f <;> rfl
end addAf

/-! ## text handlers: rejection by the threshold gate -/
theorem parserUpdate_reject_info (cfg set t id w eb ex pos) (h : set.corr id .info < eb) :
    parserUpdate cfg set t id w eb ex pos = (t, false) := by
  have : ¬ (eb ≤ set.corr id .info) := by omega
  simp [parserUpdate, this]

theorem parserUpdate_reject_data (cfg set t id w eb ex pos) (h : set.corr id .data < ex) :
    parserUpdate cfg set t id w eb ex pos = (t, false) := by
  have : ¬ (ex ≤ set.corr id .data) := by omega
  simp [parserUpdate, this]

end RDS
