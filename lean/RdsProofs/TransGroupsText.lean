import RdsProofs.TransGroupsBase
/-!
# RdsProofs.TransGroupsText — `rdsparser_group0_parse` and `rdsparser_group10_parse`

Helper file of `RdsProofs/TransGroups.lean`. All helpers are prefixed `tg_`.
-/
set_option linter.unusedSimpArgs false
set_option linter.unusedVariables false

namespace RDS.C
open RDS
open RDS.C.TransBits (bitsOf)

/-! ## `abs` / `CInv` of record updates -/

theorem tg_abs_ps (r : C_librdsparser) (hI : CInv r) (s : CStr) (hs : StrOk s 8) :
    abs { r with ps := s } = { abs r with ps := absText s } := by
  have h1 : s.term = 0 := hs.2.2.2.1
  have h2 : r.ps.term = 0 := hI.ps.2.2.2.1
  simp only [abs, absSet, absCbs, h1, h2]

theorem tg_abs_ptyn (r : C_librdsparser) (hI : CInv r) (s : CStr) (hs : StrOk s 8) :
    abs { r with ptyn := s } = { abs r with ptyn := absText s } := by
  have h1 : s.term = 0 := hs.2.2.2.1
  have h2 : r.ptyn.term = 0 := hI.ptyn.2.2.2.1
  simp only [abs, absSet, absCbs, h1, h2]

theorem tg_inv_ps (r : C_librdsparser) (hI : CInv r) (s : CStr) (hs : StrOk s 8) : CInv { r with ps := s } :=
  ⟨hI.used, hI.temp, hI.ext, hs, hI.rtLen, hI.rt0, hI.rt1, hI.ptyn, hI.progLen, hI.prog, hI.corrLen, hI.corr,
    hI.lastRt, hI.ud⟩

theorem tg_inv_ptyn (r : C_librdsparser) (hI : CInv r) (s : CStr) (hs : StrOk s 8) : CInv { r with ptyn := s } :=
  ⟨hI.used, hI.temp, hI.ext, hI.ps, hI.rtLen, hI.rt0, hI.rt1, hs, hI.progLen, hI.prog, hI.corrLen, hI.corr,
    hI.lastRt, hI.ud⟩

/-! ## the threshold gate in the form the handlers use -/

theorem tg_b2i_of01 (x : Int) (h : x = 0 ∨ x = 1) : x = b2i (x != 0) := by
  rcases h with h | h <;> subst h <;> rfl

/-- `parser_update_string_refines` with the C literals for text, block and position -/
theorem tg_pus (u : Bool) (ctx : C_librdsparser) (hI : CInv ctx) (s : CStr) (cap : Nat) (hs : StrOk s cap) (g : Group)
    (text : Nat) (id : TextId) (hid : ts_idOf text = id) (ht : text < 3) (blk w ex : Nat)
    (hdat : getI (dataOf g) (blk : Int) = (w : Int)) (herrx : getI (errorsOf g) (blk : Int) = (ex : Int))
    (pos : Nat) (textI blkI posI : Int) (htI : textI = (text : Int)) (hbI : blkI = (blk : Int))
    (hpI : posI = (pos : Int)) (hpos : pos + 1 < cap) (hcap : cap ≤ 256) :
    let r := c_rdsparser_parser_update_string u ctx s textI blkI (dataOf g) (errorsOf g) posI
    let m := parserUpdate (cfgC u) (abs ctx).set (absText s) id w g.eb ex pos
    absText r.2 = m.1 ∧ r.1 = b2i m.2 ∧ StrOk r.2 cap := by
  subst htI hbI hpI hid
  obtain ⟨h1, h2, h3, h4⟩ := ts_parser_update u ctx hI s cap hs g text ht blk w ex pos hdat herrx hpos hcap
  refine ⟨h1, ?_, h4⟩
  have := tg_b2i_of01 _ h3
  rw [h2] at this; exact this

/-- appending one callback record -/
theorem tg_emit_log (log : CLog) (b : Bool) (cb : Int) (e : CEvent C_librdsparser) (ev : Event)
    (hev : absEvent e = some ev) :
    absLog (if (b && cb != 0) = true then log ++ [e] else log) =
      absLog log ++ (if b = true then (if (cb != 0) = true then [ev] else []) else []) := by
  cases b
  · simp
  · cases h : (cb != 0)
    · simp
    · simp [tb_absLog_snoc, hev]

/-! ## `rdsparser_group0a_parse` -/

/-- the AF part of the model's `group0` -/
def tg_m0a (s : State) (g : Group) : State × List Event :=
  if (decide (g.eb = 0) && decide (g.ec = 0) && (g.c / 256 % 256 != 250)) = true then
    ((addAf (addAf s (g.c / 256 % 256)).1 (g.c % 256)).1,
      (addAf s (g.c / 256 % 256)).2 ++ (addAf (addAf s (g.c / 256 % 256)).1 (g.c % 256)).2)
  else (s, [])

theorem tg_group0a (r : C_librdsparser) (hI : CInv r) (g : Group) (log : CLog) :
    tg_Ref log (c_rdsparser_group0a_parse r (dataOf g) (errorsOf g) log) (tg_m0a (abs r) g) := by
  have haf1 : c_rdsparser_group0a_get_af1 (dataOf g) = ((g.c / 256 % 256 : Nat) : Int) :=
    TransBits.group0a_get_af1 _ _ _ _
  have haf2 : c_rdsparser_group0a_get_af2 (dataOf g) = ((g.c % 256 : Nat) : Int) :=
    TransBits.group0a_get_af2 _ _ _ _
  have h250 : ((((g.c / 256 % 256 : Nat) : Int)) == 250) = (g.c / 256 % 256 == 250) := by
    rw [Bool.eq_iff_iff, beq_iff_eq, beq_iff_eq]; omega
  unfold tg_m0a
  by_cases hc : (decide (g.eb = 0) && decide (g.ec = 0) && (g.c / 256 % 256 != 250)) = true
  · rw [if_pos hc]
    have e : c_rdsparser_group0a_parse r (dataOf g) (errorsOf g) log =
        c_rdsparser_add_af (c_rdsparser_add_af r ((g.c / 256 % 256 : Nat) : Int) log).1 ((g.c % 256 : Nat) : Int)
          (c_rdsparser_add_af r ((g.c / 256 % 256 : Nat) : Int) log).2 := by
      simp only [Bool.and_eq_true, decide_eq_true_eq, bne_iff_ne, ne_eq] at hc
      unfold c_rdsparser_group0a_parse
      simp only [tg_err1, tg_err2, tg_beq0, haf1, haf2, h250]
      simp [hc.1.1, hc.1.2, hc.2]
    rw [e]
    have s1 := tg_addAf r hI (g.c / 256 % 256) (by omega) log
    exact tg_Ref_then (fun s => addAf s (g.c % 256)) s1 (fun hI1 => tg_addAf _ hI1 (g.c % 256) (by omega) _)
  · rw [if_neg hc]
    have e : c_rdsparser_group0a_parse r (dataOf g) (errorsOf g) log = (r, log) := by
      unfold c_rdsparser_group0a_parse
      simp only [tg_err1, tg_err2, tg_beq0, haf1, haf2, h250]
      by_cases h12 : (decide (g.eb = 0) && decide (g.ec = 0)) = true
      · have h3 : g.c / 256 % 256 = 250 := by
          false_or_by_contra
          rename_i h3
          apply hc; simp only [Bool.and_eq_true, decide_eq_true_eq] at h12 ⊢
          simp [h12, h3]
        simp [h12, h3]
      · simp [h12]
    rw [e]
    exact tg_Ref_refl r log hI

/-! ## the PS stage of `rdsparser_group0_parse` -/

/-- the PS part of the model's `group0` -/
def tg_mPs (cfg : Cfg) (s : State) (g : Group) : State × List Event :=
  ({ s with ps := (parserUpdate cfg s.set s.ps .ps g.d g.eb g.ed (2 * (g.b % 4))).1 },
    if (parserUpdate cfg s.set s.ps .ps g.d g.eb g.ed (2 * (g.b % 4))).2 = true then
      emit { s with ps := (parserUpdate cfg s.set s.ps .ps g.d g.eb g.ed (2 * (g.b % 4))).1 } .ps .ps
    else [])

/-- the PS part of the translated `rdsparser_group0_parse` -/
def tg_cPs (u : Bool) (rds : C_librdsparser) (data errors : List Int) (log : CLog) : C_librdsparser × CLog :=
  let position : Int := u8 (2 * c_rdsparser_group0_get_ps_pos data)
  let t4 := c_rdsparser_parser_update_string u rds rds.ps 0 3 data errors position
  let rds : C_librdsparser := { rds with ps := t4.2 }
  let changed : Int := t4.1
  let log : CLog :=
    if changed != 0 && rds.callback_ps != 0 then
      log ++ [⟨"ps", [rds.user_data], rds⟩]
    else
      log
  (rds, log)

theorem tg_ps_stage (u : Bool) (r : C_librdsparser) (hI : CInv r) (g : Group) (log : CLog) :
    tg_Ref log (tg_cPs u r (dataOf g) (errorsOf g) log) (tg_mPs (cfgC u) (abs r) g) := by
  have hpos : u8 (2 * c_rdsparser_group0_get_ps_pos (dataOf g)) = ((2 * (g.b % 4) : Nat) : Int) := by
    unfold dataOf; rw [TransBits.group0_get_ps_pos]; rw [u8_of_range] <;> omega
  obtain ⟨h1, h2, h3⟩ := tg_pus u r hI r.ps 8 hI.ps g 0 .ps rfl (by omega) 3 g.d g.ed rfl rfl (2 * (g.b % 4))
    0 3 _ rfl rfl hpos (by omega) (by omega)
  unfold tg_cPs tg_mPs
  simp only []
  generalize c_rdsparser_parser_update_string u r r.ps 0 3 (dataOf g) (errorsOf g)
    (u8 (2 * c_rdsparser_group0_get_ps_pos (dataOf g))) = t4 at h1 h2 h3
  have hps : (abs r).ps = absText r.ps := rfl
  rw [hps]
  generalize parserUpdate (cfgC u) (abs r).set (absText r.ps) TextId.ps g.d g.eb g.ed (2 * (g.b % 4)) = m at h1 h2 h3
  have habs : abs { r with ps := t4.2 } = { abs r with ps := m.1 } := by
    rw [tg_abs_ps r hI _ h3, h1]
  refine ⟨habs, ?_, tg_inv_ps r hI _ h3⟩
  rw [h2, b2i_ne_zero]
  rw [tg_emit_log log m.2 r.callback_ps _ ⟨.ps, r.user_data.toNat, abs { r with ps := t4.2 }⟩ rfl, habs]
  rfl

/-! ## `rdsparser_group0_parse` -/

/-- the TA/MS part of the model's `group0` -/
def tg_mTaMs (s : State) (g : Group) : State × List Event :=
  if g.eb = 0 then
    ((setField (setField s .ta (g.b / 16 % 2 : Nat)).1 .ms (g.b / 8 % 2 : Nat)).1,
      (setField s .ta (g.b / 16 % 2 : Nat)).2 ++ (setField (setField s .ta (g.b / 16 % 2 : Nat)).1 .ms (g.b / 8 % 2 : Nat)).2)
  else (s, [])

theorem tg_group0_model (cfg : Cfg) (s : State) (g : Group) :
    group0 cfg s g =
      let A := tg_mTaMs s g
      let B := tg_mPs cfg A.1 g
      let C := if g.versionB = false then tg_m0a B.1 g else (B.1, [])
      (C.1, A.2 ++ B.2 ++ C.2) := by
  unfold group0 tg_mTaMs tg_mPs tg_m0a
  by_cases hb : g.eb = 0 <;> by_cases hv : g.versionB = true <;>
    by_cases hc : g.ec = 0 <;> by_cases h250 : g.c / 256 % 256 = 250 <;>
    simp [hb, hv, hc, h250, List.append_assoc]

theorem tg_group0 (u : Bool) (r : C_librdsparser) (hI : CInv r) (g : Group) (hg : g.Bounded) (log : CLog) :
    tg_Ref log (c_rdsparser_group0_parse u r (dataOf g) (errorsOf g) (tg_flag g) log) (group0 (cfgC u) (abs r) g) := by
  have hta : c_rdsparser_group0_get_ta (dataOf g) = ((g.b / 16 % 2 : Nat) : Int) := TransBits.group0_get_ta _ _ _ _
  have hms : c_rdsparser_group0_get_ms (dataOf g) = ((g.b / 8 % 2 : Nat) : Int) := TransBits.group0_get_ms _ _ _ _
  -- stage A
  have sA : tg_Ref log
      (if g.eb = 0 then
        cSetField .ms (cSetField .ta r ((g.b / 16 % 2 : Nat) : Int) log).1 ((g.b / 8 % 2 : Nat) : Int)
          (cSetField .ta r ((g.b / 16 % 2 : Nat) : Int) log).2
       else (r, log)) (tg_mTaMs (abs r) g) := by
    unfold tg_mTaMs
    by_cases h : g.eb = 0
    · simp only [h, if_true]
      have s1 := tg_setField .ta r hI ((g.b / 16 % 2 : Nat) : Int) (by simp only [FldRange]; omega) log
      exact tg_Ref_then (fun s => setField s .ms ((g.b / 8 % 2 : Nat) : Int)) s1
        (fun hI1 => tg_setField .ms _ hI1 _ (by simp only [FldRange]; omega) _)
    · simp only [h, if_false]; exact tg_Ref_refl r log hI
  generalize houtA : (if g.eb = 0 then
        cSetField .ms (cSetField .ta r ((g.b / 16 % 2 : Nat) : Int) log).1 ((g.b / 8 % 2 : Nat) : Int)
          (cSetField .ta r ((g.b / 16 % 2 : Nat) : Int) log).2
       else (r, log)) = outA at sA
  have e : c_rdsparser_group0_parse u r (dataOf g) (errorsOf g) (tg_flag g) log =
      if g.versionB = false then
        c_rdsparser_group0a_parse (tg_cPs u outA.1 (dataOf g) (errorsOf g) outA.2).1 (dataOf g) (errorsOf g)
          (tg_cPs u outA.1 (dataOf g) (errorsOf g) outA.2).2
      else tg_cPs u outA.1 (dataOf g) (errorsOf g) outA.2 := by
    subst houtA
    unfold c_rdsparser_group0_parse tg_cPs
    simp only [tg_flag_beq, tg_err1, tg_beq0, hta, hms, cSetField]
    by_cases h1 : g.eb = 0 <;> by_cases h2 : g.versionB = true <;> simp [h1, h2]
  rw [e, tg_group0_model]
  simp only []
  have sB := tg_Ref_then (fun s => tg_mPs (cfgC u) s g) sA (fun hI1 => tg_ps_stage u outA.1 hI1 g outA.2)
  by_cases hv : g.versionB = false
  · simp only [hv, if_true]
    exact tg_Ref_then (fun s => tg_m0a s g) sB (fun hI2 => tg_group0a _ hI2 g _)
  · simp only [hv, if_false]
    refine tg_Ref_congr sB ?_
    simp

/-! ## `rdsparser_group10_parse` -/

theorem tg_chg2 (a b : Bool) : (b2i (bor (b2i (bor 0 (b2i a) != 0)) (b2i b) != 0) != 0) = (a || b) := by
  cases a <;> cases b <;> decide

theorem tg_group10 (u : Bool) (r : C_librdsparser) (hI : CInv r) (g : Group) (hg : g.Bounded) (log : CLog) :
    tg_Ref log (c_rdsparser_group10_parse u r (dataOf g) (errorsOf g) (tg_flag g) log) (group10 (cfgC u) (abs r) g) := by
  by_cases hv : g.versionB = true
  · have e : c_rdsparser_group10_parse u r (dataOf g) (errorsOf g) (tg_flag g) log = (r, log) := by
      unfold c_rdsparser_group10_parse
      simp [tg_flag_beq, hv]
    rw [e]; unfold group10; simp only [hv, Bool.not_true, Bool.false_eq_true, if_false]
    exact tg_Ref_refl r log hI
  · have hv' : g.versionB = false := by simpa using hv
    have e : c_rdsparser_group10_parse u r (dataOf g) (errorsOf g) (tg_flag g) log =
        c_rdsparser_group10a_parse u r (dataOf g) (errorsOf g) log := by
      unfold c_rdsparser_group10_parse
      simp [tg_flag_beq, hv']
    rw [e]
    have hp1 : u8 (4 * c_rdsparser_group10a_get_ptyn_pos (dataOf g)) = ((4 * (g.b % 2) : Nat) : Int) := by
      unfold dataOf; rw [TransBits.group10a_get_ptyn_pos]; rw [u8_of_range] <;> omega
    have hp2 : u8 (u8 (4 * c_rdsparser_group10a_get_ptyn_pos (dataOf g)) + 2) = ((4 * (g.b % 2) + 2 : Nat) : Int) := by
      rw [hp1, u8_of_range] <;> omega
    obtain ⟨a1, a2, a3⟩ := tg_pus u r hI r.ptyn 8 hI.ptyn g 2 .ptyn rfl (by omega) 2 g.c g.ec rfl rfl (4 * (g.b % 2))
      2 2 _ rfl rfl hp1 (by omega) (by omega)
    unfold c_rdsparser_group10a_parse group10
    simp only [hv', Bool.not_false, if_true]
    generalize c_rdsparser_parser_update_string u r r.ptyn 2 2 (dataOf g) (errorsOf g)
      (u8 (4 * c_rdsparser_group10a_get_ptyn_pos (dataOf g))) = t1 at a1 a2 a3
    have hI1 := tg_inv_ptyn r hI _ a3
    obtain ⟨b1, b2, b3⟩ := tg_pus u { r with ptyn := t1.2 } hI1 t1.2 8 a3 g 2 .ptyn rfl (by omega) 3 g.d g.ed rfl rfl
      (4 * (g.b % 2) + 2) 2 3 _ rfl rfl hp2 (by omega) (by omega)
    generalize c_rdsparser_parser_update_string u { r with ptyn := t1.2 } t1.2 2 3 (dataOf g) (errorsOf g)
      (u8 (u8 (4 * c_rdsparser_group10a_get_ptyn_pos (dataOf g)) + 2)) = t2 at b1 b2 b3
    have hset : (abs { r with ptyn := t1.2 }).set = (abs r).set := rfl
    have hptyn : (abs r).ptyn = absText r.ptyn := rfl
    rw [hset, a1] at b1 b2
    rw [hptyn]
    generalize parserUpdate (cfgC u) (abs r).set (absText r.ptyn) TextId.ptyn g.c g.eb g.ec (4 * (g.b % 2)) = m1
      at a1 a2 b1 b2
    generalize parserUpdate (cfgC u) (abs r).set m1.1 TextId.ptyn g.d g.eb g.ed (4 * (g.b % 2) + 2) = m2 at b1 b2
    have habs : abs { r with ptyn := t2.2 } = { abs r with ptyn := m2.1 } := by
      rw [tg_abs_ptyn r hI _ b3, b1]
    refine ⟨habs, ?_, tg_inv_ptyn r hI _ b3⟩
    show absLog (if (b2i (bor (b2i (bor 0 t1.1 != 0)) t2.1 != 0) != 0 && r.callback_ptyn != 0) = true then
      log ++ [⟨"ptyn", [r.user_data], { r with ptyn := t2.2 }⟩] else log) = _
    rw [a2, b2, tg_chg2]
    rw [tg_emit_log log (m1.2 || m2.2) r.callback_ptyn _ ⟨.ptyn, r.user_data.toNat, abs { r with ptyn := t2.2 }⟩ rfl, habs]
    rfl

end RDS.C

#print axioms RDS.C.tg_group0
#print axioms RDS.C.tg_group10
