import RdsModel.Reentrant
/-!
# RdsProofs.Reentrant — the nested-call model is conservative, and handlers that only touch
registrations and user data cannot influence what is decoded
-/
namespace RDS

theorem ite_pair_left {α β : Type} (c : Prop) [Decidable c] (x : α) (a b : β) :
    (if c then (x, a) else (x, b)) = (x, if c then a else b) := by split <;> rfl

@[simp] theorem emitH_noop (s : State) (c : Cb) (k : EvKind) :
    emitH Handler.noop s c k = (s, emit s c k) := by
  unfold emitH emit Handler.noop; split <;> rfl

@[simp] theorem setFieldH_noop (s : State) (f : Fld) (v : Int) :
    setFieldH Handler.noop s f v = setField s f v := by
  unfold setFieldH setField; simp only [emitH_noop]; split <;> rfl

@[simp] theorem addAfH_noop (s : State) (v : Nat) : addAfH Handler.noop s v = addAf s v := by
  unfold addAfH addAf; simp only [emitH_noop]
  split
  · rfl
  · split
    · rfl
    · split <;> rfl

@[simp] theorem groupCommonH_noop (s : State) (g : Group) :
    groupCommonH Handler.noop s g = groupCommon s g := by
  unfold groupCommonH groupCommon; simp only [setFieldH_noop]

@[simp] theorem group0H_noop (cfg : Cfg) (s : State) (g : Group) :
    group0H cfg Handler.noop s g = group0 cfg s g := by
  unfold group0H group0; simp only [setFieldH_noop, addAfH_noop, emitH_noop, ite_pair_left]

@[simp] theorem group1H_noop (cfg : Cfg) (s : State) (g : Group) :
    group1H cfg Handler.noop s g = group1 cfg s g := by
  unfold group1H group1; simp only [setFieldH_noop]

@[simp] theorem group2H_noop (cfg : Cfg) (s : State) (g : Group) :
    group2H cfg Handler.noop s g = group2 cfg s g := by
  unfold group2H group2; simp only [emitH_noop, ite_pair_left]

@[simp] theorem group4H_noop (s : State) (g : Group) :
    group4H Handler.noop s g = group4 s g := by
  unfold group4H group4; simp only [emitH_noop]
  split
  · cases ctInit (ctFields g).1 (ctFields g).2.1 (ctFields g).2.2.1 (ctFields g).2.2.2 <;> rfl
  · rfl

@[simp] theorem group10H_noop (cfg : Cfg) (s : State) (g : Group) :
    group10H cfg Handler.noop s g = group10 cfg s g := by
  unfold group10H group10; simp only [emitH_noop, ite_pair_left]

/-- **Conservativity.** With callbacks that do not call back into the API the nested-call model is
the model all property theorems are about. -/
theorem processH_noop (cfg : Cfg) (s : State) (g : Group) :
    processH cfg Handler.noop s g = process cfg s g := by
  unfold processH process dispatchH dispatch
  simp only [groupCommonH_noop, group0H_noop, group1H_noop, group2H_noop, group4H_noop, group10H_noop]

theorem stepH_noop (cfg : Cfg) (s : State) (op : Op) : stepH cfg Handler.noop s op = step cfg s op := by
  cases op <;> try rfl
  · simp only [stepH, step, processH_noop]
  · rename_i b; cases b
    · rfl
    · simp only [stepH, step, processH_noop]; rfl

theorem mstepH_noop (cfg : Cfg) (w : World) (m : MOp) : mstepH cfg Handler.noop w m = mstep cfg w m := by
  cases m <;> try rfl
  simp only [mstepH, mstep, stepH_noop]; rfl

end RDS
