import RdsProofs.Frame
import RdsProofs.Inv
/-!
# RdsProofs.C04Base — event-list, `setField`, `addAf`, text-update and AF-list lemmas for C04
-/
namespace RDS


def cntK (l : List Event) (p : EvKind → Bool) : Nat := (l.filter (fun e => p e.kind)).length

@[simp] theorem ofEvent_kind (e : Event) : (EvObs.ofEvent e).kind = e.kind := rfl

theorem countKind_map (l : List Event) (p : EvKind → Bool) :
    countKind (l.map EvObs.ofEvent) p = cntK l p := by
  simp [countKind, cntK, List.filter_map, Function.comp_def]

@[simp] theorem cntK_nil (p) : cntK [] p = 0 := rfl
@[simp] theorem cntK_append (l1 l2 p) : cntK (l1 ++ l2) p = cntK l1 p + cntK l2 p := by
  simp [cntK]

theorem cntK_emit (s : State) (c : Cb) (k : EvKind) (p) :
    cntK (emit s c k) p = if s.registered c && p k then 1 else 0 := by
  unfold emit cntK
  cases s.registered c <;> cases h : p k <;> simp [h]

theorem mem_emit {s : State} {c : Cb} {k : EvKind} {e : Event} (h : e ∈ emit s c k) :
    e.kind = k ∧ e.snap = s ∧ e.ud = s.ud ∧ s.registered c = true := by
  unfold emit at h
  split at h
  · simp at h; subst h; simp_all
  · simp at h


/-! ## setField -/
theorem Fld.ev_inj {f f' : Fld} (h : f.ev = f'.ev) : f = f' := by
  cases f <;> cases f' <;> first | rfl | cases h

theorem setField_evs (s : State) (f : Fld) (v : Int) :
    (setField s f v).2 =
      if (setField s f v).1.used.get f ≠ s.used.get f then emit (setField s f v).1 f.cb f.ev else [] := by
  have h := bufUpdate_changed_iff s.set.ext (s.used.get f) (s.temp.get f) v
  rw [setField_used_get]
  by_cases hc : (bufUpdate s.set.ext (s.used.get f) (s.temp.get f) v).2.2 = true
  · rw [if_pos (h.1 hc)]; simp [setField, hc]
  · rw [if_neg (fun hh => hc (h.2 hh))]; simp [setField, hc]

/-- count of events of kind `f'.ev` of one `setField` -/
theorem setField_cnt (s : State) (f : Fld) (v : Int) (p : EvKind → Bool) :
    cntK (setField s f v).2 p =
      if (setField s f v).1.used.get f ≠ s.used.get f ∧ s.registered f.cb = true ∧ p f.ev = true then 1 else 0 := by
  rw [setField_evs]
  by_cases hc : (setField s f v).1.used.get f ≠ s.used.get f
  · rw [if_pos hc, cntK_emit, setField_registered]; simp [hc]
  · simp [hc]

theorem mem_setField {s : State} {f : Fld} {v : Int} {e : Event} (h : e ∈ (setField s f v).2) :
    e.kind = f.ev ∧ e.snap = (setField s f v).1 := by
  rw [setField_evs] at h
  split at h
  · have := mem_emit h; exact ⟨this.1, this.2.1⟩
  · simp at h

/-! ## addAf -/


/-- `addAf s v` adds code `v` to the visible list -/
def afNew (s : State) (v : Nat) : Bool :=
  !afGet s.used.af v && !(s.set.ext && !afGet s.temp.af v) && afValid v

theorem addAf_used_af (s : State) (v : Nat) :
    (addAf s v).1.used.af = if afNew s v then s.used.af.set v true else s.used.af := by
  unfold addAf afNew afSet
  cases h1 : afGet s.used.af v <;> cases h2 : (s.set.ext && !afGet s.temp.af v) <;>
    cases h3 : afValid v <;> simp

@[simp] theorem addAf_registered (s : State) (v : Nat) (c : Cb) :
    (addAf s v).1.registered c = s.registered c := by
  simp [State.registered]

theorem addAf_evs (s : State) (v : Nat) :
    (addAf s v).2 = if afNew s v then emit (addAf s v).1 .af (.af (87500 + v * 100)) else [] := by
  unfold addAf afNew afSet
  cases h1 : afGet s.used.af v <;> cases h2 : (s.set.ext && !afGet s.temp.af v) <;>
    cases h3 : afValid v <;> simp

@[simp] theorem addAf_used_pi (s : State) (v : Nat) : (addAf s v).1.used.pi = s.used.pi := addAf_used_get s v .pi

/-! ## text updates -/


theorem updateSingle_spec (cfg : Cfg) (t : Text) (b ei ed pos : Nat) (prog : Bool) :
    ((updateSingle cfg t b ei ed pos prog).2 ≠ .stored → (updateSingle cfg t b ei ed pos prog).1 = t) ∧
    ((updateSingle cfg t b ei ed pos prog).2 = .stored →
      (updateSingle cfg t b ei ed pos prog).1[pos]? ≠ t[pos]?) ∧
    (∀ i, i ≠ pos → (updateSingle cfg t b ei ed pos prog).1[i]? = t[i]?) := by
  unfold updateSingle
  split
  · simp
  · rename_i cell hcell
    simp only
    split; · simp
    split; · simp
    split; · simp
    split; · simp
    split; · simp
    rename_i hne
    refine ⟨by simp, fun _ => ?_, fun i hi => ?_⟩
    · have hp : pos < t.length := by
        rcases Nat.lt_or_ge pos t.length with h | h
        · exact h
        · rw [List.getElem?_eq_none h] at hcell; cases hcell
      rw [List.getElem?_set_self hp, hcell]
      intro h
      injection h with h
      apply hne
      rw [← h]; simp
    · rw [List.getElem?_set_ne (Ne.symm hi)]

theorem updateString_spec (cfg : Cfg) (t : Text) (w ei ed pos : Nat) (prog : Bool) :
    ((updateString cfg t w ei ed pos prog).2 = false → (updateString cfg t w ei ed pos prog).1 = t) ∧
    ((updateString cfg t w ei ed pos prog).2 = true →
      ∃ i, (i = pos ∨ i = pos + 1) ∧ (updateString cfg t w ei ed pos prog).1[i]? ≠ t[i]?) ∧
    (∀ i, i ≠ pos → i ≠ pos + 1 → (updateString cfg t w ei ed pos prog).1[i]? = t[i]?) := by
  simp only [updateString]
  have h1 := updateSingle_spec cfg t (w / 256 % 256) ei ed pos prog
  generalize updateSingle cfg t (w / 256 % 256) ei ed pos prog = r1 at h1 ⊢
  have h2 := updateSingle_spec cfg r1.1 (w % 256) ei ed (pos + 1) prog
  generalize updateSingle cfg r1.1 (w % 256) ei ed (pos + 1) prog = r2 at h2 ⊢
  obtain ⟨a1, b1, c1⟩ := h1
  obtain ⟨a2, b2, c2⟩ := h2
  simp only [Bool.or_eq_false_iff, Bool.or_eq_true, beq_eq_false_iff_ne, beq_iff_eq]
  refine ⟨fun h => ?_, fun h => ?_, fun i hi hi' => ?_⟩
  · rw [a2 h.2, a1 h.1]
  · rcases h with h | h
    · refine ⟨pos, Or.inl rfl, ?_⟩
      rw [c2 pos (by omega)]; exact b1 h
    · refine ⟨pos + 1, Or.inr rfl, ?_⟩
      rw [← c1 (pos + 1) (by omega)]; exact b2 h
  · rw [c2 i hi', c1 i hi]

theorem parserUpdate_spec (cfg : Cfg) (set : Settings) (t : Text) (id : TextId) (w eb ex pos : Nat) :
    ((parserUpdate cfg set t id w eb ex pos).2 = false → (parserUpdate cfg set t id w eb ex pos).1 = t) ∧
    ((parserUpdate cfg set t id w eb ex pos).2 = true →
      ∃ i, (i = pos ∨ i = pos + 1) ∧ (parserUpdate cfg set t id w eb ex pos).1[i]? ≠ t[i]?) ∧
    (∀ i, i ≠ pos → i ≠ pos + 1 → (parserUpdate cfg set t id w eb ex pos).1[i]? = t[i]?) := by
  unfold parserUpdate
  split
  · exact updateString_spec ..
  · simp

theorem parserUpdate_changed_iff (cfg : Cfg) (set : Settings) (t : Text) (id : TextId) (w eb ex pos : Nat) :
    (parserUpdate cfg set t id w eb ex pos).2 = true ↔ (parserUpdate cfg set t id w eb ex pos).1 ≠ t := by
  obtain ⟨a, b, _⟩ := parserUpdate_spec cfg set t id w eb ex pos
  constructor
  · intro h e
    obtain ⟨i, _, hi⟩ := b h
    exact hi (by rw [e])
  · intro h
    cases hc : (parserUpdate cfg set t id w eb ex pos).2
    · exact absurd (a hc) h
    · rfl

/-- two consecutive updates on disjoint index pairs -/
theorem parserUpdate2_changed_iff (cfg : Cfg) (set : Settings) (t : Text) (id : TextId)
    (w1 w2 eb ex1 ex2 p q : Nat) (hd : p + 1 < q ∨ q + 1 < p) :
    ((parserUpdate cfg set t id w1 eb ex1 p).2 ||
      (parserUpdate cfg set (parserUpdate cfg set t id w1 eb ex1 p).1 id w2 eb ex2 q).2) = true ↔
    (parserUpdate cfg set (parserUpdate cfg set t id w1 eb ex1 p).1 id w2 eb ex2 q).1 ≠ t := by
  obtain ⟨a1, b1, c1⟩ := parserUpdate_spec cfg set t id w1 eb ex1 p
  generalize parserUpdate cfg set t id w1 eb ex1 p = u1 at *
  obtain ⟨a2, b2, c2⟩ := parserUpdate_spec cfg set u1.1 id w2 eb ex2 q
  generalize parserUpdate cfg set u1.1 id w2 eb ex2 q = u2 at *
  constructor
  · intro h e
    cases h1 : u1.2
    · have := a1 h1
      simp only [h1, Bool.false_or] at h
      obtain ⟨i, _, hi⟩ := b2 h
      exact hi (by rw [e, this])
    · obtain ⟨i, hi, hne⟩ := b1 h1
      apply hne
      rw [← c2 i (by omega) (by omega), e]
  · intro h
    cases h1 : u1.2
    · cases h2 : u2.2
      · exact absurd (by rw [a2 h2, a1 h1]) h
      · rfl
    · rfl

/-! ## AF code lists -/


/-- `newAfCodes` with an index offset -/
def nac (b a : List Bool) (k : Nat) : List Nat :=
  ((List.zip a b).zipIdx k).filterMap (fun p => if p.1.1 && !p.1.2 then some p.2 else none)

theorem newAfCodes_eq (b a : Obs) : newAfCodes b a = nac b.sc.af a.sc.af 0 := rfl

theorem nac_cons (x y : Bool) (b a : List Bool) (k : Nat) :
    nac (x :: b) (y :: a) k = (if y && !x then [k] else []) ++ nac b a (k + 1) := by
  simp only [nac, List.zip_cons_cons, List.zipIdx_cons, List.filterMap_cons]
  cases y <;> cases x <;> simp

@[simp] theorem nac_nil_left (a k) : nac [] a k = [] := by simp [nac]
@[simp] theorem nac_nil_right (b k) : nac b [] k = [] := by simp [nac]

theorem nac_self (l : List Bool) (k : Nat) : nac l l k = [] := by
  induction l generalizing k with
  | nil => simp
  | cons x l ih => rw [nac_cons, ih]; cases x <;> simp

theorem nac_set (l : List Bool) (v k : Nat) (hv : v < l.length) (hf : l[v] = false) :
    nac l (l.set v true) k = [k + v] := by
  induction l generalizing v k with
  | nil => simp at hv
  | cons x l ih =>
    cases v with
    | zero =>
      simp only [List.getElem_cons_zero] at hf
      subst hf
      simp [List.set_cons_zero, nac_cons, nac_self]
    | succ v =>
      simp only [List.getElem_cons_succ] at hf
      simp only [List.length_cons, Nat.add_lt_add_iff_right] at hv
      rw [List.set_cons_succ, nac_cons, ih v (k + 1) hv hf]
      cases x <;> simp <;> omega

theorem nac_set2 (l : List Bool) (v1 v2 k : Nat) (h1 : v1 < l.length) (h2 : v2 < l.length)
    (hf1 : l[v1] = false) (hf2 : l[v2] = false) (hne : v1 ≠ v2) :
    nac l ((l.set v1 true).set v2 true) k = if v1 < v2 then [k + v1, k + v2] else [k + v2, k + v1] := by
  induction l generalizing v1 v2 k with
  | nil => simp at h1
  | cons x l ih =>
    cases v1 with
    | zero =>
      cases v2 with
      | zero => exact absurd rfl hne
      | succ j =>
        simp only [List.getElem_cons_zero] at hf1
        simp only [List.getElem_cons_succ] at hf2
        have h2' : j < l.length := by simpa using h2
        subst hf1
        rw [List.set_cons_zero, List.set_cons_succ, nac_cons, nac_set l j (k + 1) h2' hf2]
        simp; omega
    | succ i =>
      cases v2 with
      | zero =>
        simp only [List.getElem_cons_zero] at hf2
        simp only [List.getElem_cons_succ] at hf1
        have h1' : i < l.length := by simpa using h1
        subst hf2
        rw [List.set_cons_succ, List.set_cons_zero, nac_cons, nac_set l i (k + 1) h1' hf1]
        simp; omega
      | succ j =>
        simp only [List.getElem_cons_succ] at hf1 hf2
        simp only [List.length_cons, Nat.add_lt_add_iff_right] at h1 h2
        rw [List.set_cons_succ, List.set_cons_succ, nac_cons, ih i j (k + 1) h1 h2 hf1 hf2 (by omega)]
        cases x <;> simp <;> split <;> simp <;> omega

theorem sortNat_nil : sortNat [] = [] := rfl
theorem sortNat_single (a : Nat) : sortNat [a] = [a] := rfl
theorem sortNat_pair (a b : Nat) : sortNat [a, b] = if a ≤ b then [a, b] else [b, a] := by
  simp [sortNat, insertNat]
theorem sortNat_pair_comm (a b : Nat) : sortNat [a, b] = sortNat [b, a] := by
  rw [sortNat_pair, sortNat_pair]
  by_cases h1 : a ≤ b <;> by_cases h2 : b ≤ a <;> simp [h1, h2] <;> omega
end RDS
