import RdsProofs.TableBase
/-!
# RdsProofs.TableC02 — kernel-checked theorems about the extracted character table (C02)

`Generated.*` is read out of the compiled library on every run; `Reference.*` is the hand-written
oracle. Every theorem rests on closed, finite `Bool` facts evaluated by the kernel (`decide +kernel`)
over the *whole* table (one pass: indexing a 256-entry list per cell is quadratic in the kernel), then
lifted to `∀` by the `tbl_…` lemmas of `RdsProofs.TableBase`.
-/

-- the kernel evaluations are memory-bound; checking them concurrently is slower than in sequence
set_option Elab.async false

namespace RDS
open RDS.TableCheck

/-! ## C02 — character set of the default build -/

theorem C02_stored :
    Generated.g0Stored = (List.range 256).map (fun b => b == 0x0D || decide (0x20 ≤ b)) :=
  eq_of_beq (by decide +kernel)

theorem C02_eol : Generated.g0.getD 0x0D 1 = 0 := by decide +kernel

/-- a stored printable never collides with the end-of-text marker -/
theorem C02_no_nul : ∀ b, b ≥ 0x20 → b < 256 → b ≠ 0x0D → Generated.g0.getD b 0 ≠ 0 := by
  intro b h20 hb _
  have h := tbl_zipIdx_all (l := Generated.g0) (p := fun i x => decide (i < 0x20) || x != 0)
    (by decide +kernel) b 0 (by rw [tbl_generated_lengths.1]; exact hb)
  have hlt : ¬ b < 0x20 := by omega
  simpa [hlt] using h

theorem C02_lane_independent :
    Generated.laneDependent = 0 ∧ Generated.laneDependentNarrow = 0 := by decide +kernel


theorem tbl_g0_table : Generated.g0 = g0Expected := eq_of_beq (by decide +kernel)

/-- every stored byte ≥ 0x20 is mapped through IEC 62106 code table E.1 -/
theorem C02_charset : ∀ b, 0x20 ≤ b → b < 256 →
    Generated.g0.getD b 0 = Reference.g0.getD (b - 0x20) 0 := by
  intro b h20 hb
  rw [tbl_getD_of_eq_map_range tbl_g0_table b hb 0]
  have h0D : (b == 0x0D) = false := by simp; omega
  have hlt : ¬ b < 0x20 := by omega
  simp [Reference.g0Value, h0D, hlt]



#print axioms C02_stored
#print axioms C02_eol
#print axioms C02_no_nul
#print axioms C02_lane_independent
#print axioms C02_charset

end RDS
