import RdsProofs.WordedMon
/-!
# RdsProofs.WordedProofs — C01, C09, C10, C17 read directly over the call history

Each theorem is: an invariant of the abstract machine `Mon` folded over the op list (oldest first), expressed
with the `Worded` definitions, plus the refinement `Link` of `RdsProofs/Reach.lean`.
-/
namespace RDS

/-! ## `Link` for an arbitrary configuration (no table contract needed) -/

theorem wd_reachL_from (cfg : Cfg) (ops : List Op) :
    ∀ (m : Mon) (s : State), LinkL m s → LinkL (ops.foldl (Mon.step cfg) m) (runFrom cfg s ops) := by
  induction ops with
  | nil => intro m s h; exact h
  | cons op ops ih => intro m s h; exact ih _ _ (linkL_step cfg m s op h)

theorem wd_reachL (cfg : Cfg) (ops : List Op) : LinkL (monAfter cfg ops) (run cfg ops) :=
  wd_reachL_from cfg ops Mon.init initState ⟨link_init, initState_used_af_len, initState_temp_af_len⟩

/-! ## normal mode -/

def wd_NInv (m : Mon) (ops : List Op) : Prop :=
  m.ext = false ∧ m.clean = true ∧
  ∀ f, f ≠ .country → (m.fld f).vis = lastOr (-1) (recvSeq (wd_sel f) ops)

theorem wd_NInv_step (cfg : Cfg) (m : Mon) (ops : List Op) (op : Op) (hop : op ≠ .setExt true)
    (h : wd_NInv m ops) : wd_NInv (m.step cfg op) (ops ++ [op]) := by
  obtain ⟨he, hc, hf⟩ := h
  rcases wd_op_cases op with h1 | h1 | ⟨g, hg⟩ | ⟨hg, h1, h2⟩
  · subst h1
    rw [wd_step_init]
    refine ⟨rfl, rfl, fun f hf' => ?_⟩
    rw [wd_recvSeq_snoc, wd_recvStep_init, wd_init_fld f hf']
    rfl
  · subst h1
    rw [wd_step_clear]
    refine ⟨he, rfl, fun f hf' => ?_⟩
    rw [wd_recvSeq_snoc, wd_recvStep_clear, wd_reset_fld m f hf']
    rfl
  · rw [wd_step_group cfg m op g hg]
    refine ⟨?_, ?_, fun f hf' => ?_⟩
    · show (m.group cfg g).ext = false
      rw [wd_group_ext]; exact he
    · show (m.group cfg g).clean = true
      rw [wd_group_clean]; exact hc
    · rw [wd_prev_fld, wd_group_fld cfg m g f hf', wd_recvSeq_snoc, wd_recvStep_group _ _ _ _ hg]
      cases hs : wd_sel f g with
      | none => exact hf f hf'
      | some v =>
        simp only []
        rw [wd_lastOr_snoc, he]
        rfl
  · obtain ⟨q1, _, q3⟩ := wd_step_quiet cfg m op hg h1 h2
    have hx : (m.step cfg op).ext = false ∧ (m.step cfg op).clean = true := by
      by_cases hs : ∃ v, op = .setExt v
      · obtain ⟨v, rfl⟩ := hs
        have hv : v = false := by
          cases v
          · rfl
          · exact absurd rfl hop
        subst hv
        obtain ⟨a, b⟩ := wd_step_setExt cfg m false
        rw [a, b, hc, he]
        exact ⟨rfl, rfl⟩
      · have := q3 (fun v hv => hs ⟨v, hv⟩)
        rw [this.1, this.2]
        exact ⟨he, hc⟩
    refine ⟨hx.1, hx.2, fun f hf' => ?_⟩
    rw [q1, wd_recvSeq_snoc, wd_recvStep_nogroup _ _ _ hg h1 h2]
    exact hf f hf'

theorem wd_NInv_all (cfg : Cfg) (ops : List Op) : NormalMode ops → wd_NInv (monAfter cfg ops) ops := by
  induction ops using wd_snoc_ind with
  | hnil =>
    intro _
    refine ⟨rfl, rfl, fun f hf' => ?_⟩
    show (Mon.init.fld f).vis = _
    rw [wd_init_fld f hf']
    rfl
  | hsnoc l a ih =>
    intro hn
    have h1 : NormalMode l := fun op ho => hn op (List.mem_append_left _ ho)
    rw [monAfter_snoc]
    exact wd_NInv_step cfg _ l a (hn a (by simp)) (ih h1)

/-! ## extended check -/

def wd_EInv (m : Mon) (ops : List Op) : Prop :=
  m.ext = true ∧ m.clean = true ∧
  ∀ f, f ≠ .country →
    m.fld f = ⟨(wd_extSt (-1) (recvSeq (wd_sel f) ops)).1, (wd_extSt (-1) (recvSeq (wd_sel f) ops)).2⟩

theorem wd_EInv_step (cfg : Cfg) (m : Mon) (ops : List Op) (op : Op)
    (hop : (∀ v, op ≠ .setExt v) ∧ op ≠ .init)
    (h : wd_EInv m ops) : wd_EInv (m.step cfg op) (ops ++ [op]) := by
  obtain ⟨he, hc, hf⟩ := h
  rcases wd_op_cases op with h1 | h1 | ⟨g, hg⟩ | ⟨hg, h1, h2⟩
  · exact absurd h1 hop.2
  · subst h1
    rw [wd_step_clear]
    refine ⟨he, rfl, fun f hf' => ?_⟩
    rw [wd_recvSeq_snoc, wd_recvStep_clear, wd_reset_fld m f hf']
    rfl
  · rw [wd_step_group cfg m op g hg]
    refine ⟨?_, ?_, fun f hf' => ?_⟩
    · show (m.group cfg g).ext = true
      rw [wd_group_ext]; exact he
    · show (m.group cfg g).clean = true
      rw [wd_group_clean]; exact hc
    · rw [wd_prev_fld, wd_group_fld cfg m g f hf', wd_recvSeq_snoc, wd_recvStep_group _ _ _ _ hg]
      cases hs : wd_sel f g with
      | none => exact hf f hf'
      | some v =>
        simp only []
        rw [wd_extSt_snoc, he, hf f hf']
        rfl
  · obtain ⟨q1, _, q3⟩ := wd_step_quiet cfg m op hg h1 h2
    have := q3 hop.1
    refine ⟨this.1.trans he, this.2.trans hc, fun f hf' => ?_⟩
    rw [q1, wd_recvSeq_snoc, wd_recvStep_nogroup _ _ _ hg h1 h2]
    exact hf f hf'

theorem wd_EInv_base (cfg : Cfg) : wd_EInv (monAfter cfg [.setExt true]) [.setExt true] := by
  have hcl : (monAfter cfg [.setExt true]).clean =
      (Mon.init.clean && (decide (true = Mon.init.ext) || !Mon.init.anyRecv)) := rfl
  refine ⟨rfl, hcl.trans (by decide), fun f hf' => ?_⟩
  have e : (monAfter cfg [.setExt true]).fld f = Mon.init.fld f := by cases f <;> rfl
  rw [e, wd_init_fld f hf']
  rfl

theorem wd_EInv_all (cfg : Cfg) (rest : List Op) :
    (∀ op ∈ rest, (∀ v, op ≠ .setExt v) ∧ op ≠ .init) →
      wd_EInv (monAfter cfg (.setExt true :: rest)) (.setExt true :: rest) := by
  induction rest using wd_snoc_ind with
  | hnil => intro _; exact wd_EInv_base cfg
  | hsnoc l a ih =>
    intro h
    have h1 := ih (fun op ho => h op (List.mem_append_left _ ho))
    have e : Op.setExt true :: (l ++ [a]) = (Op.setExt true :: l) ++ [a] := rfl
    rw [e, monAfter_snoc]
    exact wd_EInv_step cfg _ _ a (h a (by simp)) h1

/-! ## reception counts -/

theorem wd_afCount_inv (cfg : Cfg) (v : Nat) (hv : afValid v = true) (ops : List Op) :
    (monAfter cfg ops).afCount.length = afBits ∧ (monAfter cfg ops).afCount.getD v 0 = afCount v ops := by
  have hbase : (List.replicate afBits 0).length = afBits ∧ (List.replicate afBits 0).getD v 0 = 0 :=
    ⟨List.length_replicate, getD_replicate_same _ _ _⟩
  induction ops using wd_snoc_ind with
  | hnil => exact hbase
  | hsnoc l a ih =>
    obtain ⟨ihl, ihc⟩ := ih
    rw [monAfter_snoc, wd_afCount_snoc]
    rcases wd_op_cases a with h1 | h1 | ⟨g, hg⟩ | ⟨hg, h1, h2⟩
    · subst h1; exact hbase
    · subst h1; exact hbase
    · rw [wd_step_group cfg _ a g hg, wd_afStep_group _ _ _ _ hg]
      obtain ⟨c1, c2⟩ := wd_group_afCount cfg (monAfter cfg l) g v hv ihl
      exact ⟨c2, by rw [← ihc]; exact c1⟩
    · obtain ⟨_, q2, _⟩ := wd_step_quiet cfg (monAfter cfg l) a hg h1 h2
      rw [q2, wd_afStep_nogroup _ _ _ hg h1 h2]
      exact ⟨ihl, ihc⟩

/-! ## settings -/

section settings
variable (s : Settings)

theorem wd_init_corr (t : TextId) (k : BlockType) : Settings.init.corr t k = 0 := by
  cases t <;> cases k <;> rfl
theorem wd_init_prog (t : TextId) : Settings.init.prog t = false := by cases t <;> rfl

theorem wd_setCorr_corr (t' : TextId) (k' : BlockType) (v : Nat) (t : TextId) (k : BlockType) :
    (s.setCorr t' k' v).corr t k = if t' = t ∧ k' = k then min v 2 else s.corr t k := by
  cases t' <;> cases k' <;> cases t <;> cases k <;> simp [Settings.setCorr, Settings.corr]
theorem wd_setCorr_prog (t' : TextId) (k' : BlockType) (v : Nat) (t : TextId) :
    (s.setCorr t' k' v).prog t = s.prog t := by
  cases t' <;> cases k' <;> cases t <;> rfl
theorem wd_setProg_corr (t' : TextId) (v : Bool) (t : TextId) (k : BlockType) :
    (s.setProg t' v).corr t k = s.corr t k := by
  cases t' <;> cases t <;> cases k <;> rfl
theorem wd_setProg_prog (t' : TextId) (v : Bool) (t : TextId) :
    (s.setProg t' v).prog t = if t' = t then v else s.prog t := by
  cases t' <;> cases t <;> simp [Settings.setProg, Settings.prog]
theorem wd_setExt_corr (v : Bool) (t : TextId) (k : BlockType) : ({ s with ext := v } : Settings).corr t k = s.corr t k := by
  cases t <;> cases k <;> rfl
theorem wd_setExt_prog (v : Bool) (t : TextId) : ({ s with ext := v } : Settings).prog t = s.prog t := by
  cases t <;> rfl
end settings

theorem wd_lastCorr_snoc (t : TextId) (k : BlockType) (ops : List Op) (op : Op) :
    lastCorr t k (ops ++ [op]) = (match op with
      | .init => 0
      | .setCorr t' k' v => if t' = t ∧ k' = k then min v 2 else lastCorr t k ops
      | _ => lastCorr t k ops) := by
  unfold lastCorr
  rw [List.foldl_append]
  rfl

theorem wd_lastProg_snoc (t : TextId) (ops : List Op) (op : Op) :
    lastProg t (ops ++ [op]) = (match op with
      | .init => false
      | .setProg t' v => if t' = t then v else lastProg t ops
      | _ => lastProg t ops) := by
  unfold lastProg
  rw [List.foldl_append]
  rfl

theorem wd_lastExt_snoc (ops : List Op) (op : Op) :
    lastExt (ops ++ [op]) = (match op with
      | .init => false
      | .setExt v => v
      | _ => lastExt ops) := by
  unfold lastExt
  rw [List.foldl_append]
  rfl

theorem wd_step_set_group (cfg : Cfg) (m : Mon) (op : Op) (g : Group) (hg : op.group? = some g) :
    (m.step cfg op).set = m.set := by
  rw [wd_step_group cfg m op g hg]
  exact wd_group_set cfg m g

theorem wd_set_inv (cfg : Cfg) (t : TextId) (k : BlockType) (ops : List Op) :
    (monAfter cfg ops).set.corr t k = lastCorr t k ops ∧ (monAfter cfg ops).set.prog t = lastProg t ops ∧
    (monAfter cfg ops).set.ext = lastExt ops := by
  induction ops using wd_snoc_ind with
  | hnil => exact ⟨wd_init_corr t k, wd_init_prog t, rfl⟩
  | hsnoc l a ih =>
    obtain ⟨i1, i2, i3⟩ := ih
    rw [monAfter_snoc, wd_lastCorr_snoc, wd_lastProg_snoc, wd_lastExt_snoc]
    cases hg : a.group? with
    | some g =>
      rw [wd_step_set_group cfg _ a g hg]
      obtain ⟨n1, n2⟩ := wd_group_ne_init hg
      cases a <;> first | exact ⟨i1, i2, i3⟩ | cases hg
    | none =>
      cases a with
      | init => exact ⟨wd_init_corr t k, wd_init_prog t, rfl⟩
      | parse g => cases hg
      | parseString b =>
        cases b with
        | none => exact ⟨i1, i2, i3⟩
        | some bytes =>
          have hg' : utilsConvert bytes = none := hg
          have e : (monAfter cfg l).step cfg (.parseString (some bytes)) = { monAfter cfg l with prevGroup := none } := by
            simp only [Mon.step, Op.group?, hg']
          rw [e]
          exact ⟨i1, i2, i3⟩
      | setExt v =>
        refine ⟨?_, ?_, rfl⟩
        · show ({ (monAfter cfg l).set with ext := v } : Settings).corr t k = _
          rw [wd_setExt_corr]; exact i1
        · show ({ (monAfter cfg l).set with ext := v } : Settings).prog t = _
          rw [wd_setExt_prog]; exact i2
      | setCorr t' k' v =>
        refine ⟨?_, ?_, ?_⟩
        · show ((monAfter cfg l).set.setCorr t' k' v).corr t k = _
          rw [wd_setCorr_corr, i1]
        · show ((monAfter cfg l).set.setCorr t' k' v).prog t = _
          rw [wd_setCorr_prog]; exact i2
        · show ((monAfter cfg l).set.setCorr t' k' v).ext = _
          rw [Settings.setCorr_ext]; exact i3
      | setProg t' v =>
        refine ⟨?_, ?_, ?_⟩
        · show ((monAfter cfg l).set.setProg t' v).corr t k = _
          rw [wd_setProg_corr]; exact i1
        · show ((monAfter cfg l).set.setProg t' v).prog t = _
          rw [wd_setProg_prog, i2]
        · show ((monAfter cfg l).set.setProg t' v).ext = _
          rw [Settings.setProg_ext]; exact i3
      | _ => exact ⟨i1, i2, i3⟩

/-! ## the AF bitmap only gains bits between resets (model level) -/

def wd_AfMono (s s' : State) : Prop := ∀ v, s.used.af.getD v false = true → s'.used.af.getD v false = true

theorem wd_afMono_of_eq {s s' : State} (h : s'.used.af = s.used.af) : wd_AfMono s s' := by
  intro v hv; rw [h]; exact hv

theorem wd_afMono_trans {s s' s'' : State} (h1 : wd_AfMono s s') (h2 : wd_AfMono s' s'') : wd_AfMono s s'' :=
  fun v hv => h2 v (h1 v hv)

theorem wd_getD_set_true (l : List Bool) (w v : Nat) (h : l.getD v false = true) :
    (l.set w true).getD v false = true := by
  by_cases hwv : w = v
  · subst hwv
    have hlt : w < l.length := by
      rcases Nat.lt_or_ge w l.length with h' | h'
      · exact h'
      · rw [List.getD_eq_getElem?_getD, List.getElem?_eq_none h'] at h; cases h
    exact getD_set_self _ _ _ _ hlt
  · rw [getD_set_ne _ _ _ _ _ hwv]; exact h

theorem wd_afMono_addAf (s : State) (w : Nat) : wd_AfMono s (addAf s w).1 := by
  intro v hv
  unfold addAf
  split
  · exact hv
  · split
    · exact hv
    · show (afSet s.used.af w).1.getD v false = true
      unfold afSet
      split
      · exact wd_getD_set_true _ _ _ hv
      · exact hv

theorem wd_groupCommon_used_af (s : State) (g : Group) : (groupCommon s g).1.used.af = s.used.af := by
  unfold groupCommon
  simp only []
  repeat' split
  all_goals simp

theorem wd_afMono_group0 (cfg : Cfg) (s : State) (g : Group) : wd_AfMono s (group0 cfg s g).1 := by
  intro v hv
  unfold group0
  simp only []
  have h1 : (if g.eb = 0 then
          ((setField (setField s .ta (g.b / 16 % 2 : Nat)).1 .ms (g.b / 8 % 2 : Nat)).1,
            (setField s .ta (g.b / 16 % 2 : Nat)).2 ++
              (setField (setField s .ta (g.b / 16 % 2 : Nat)).1 .ms (g.b / 8 % 2 : Nat)).2)
        else (s, [])).1.used.af = s.used.af := by
    split <;> simp
  generalize (if g.eb = 0 then
          ((setField (setField s .ta (g.b / 16 % 2 : Nat)).1 .ms (g.b / 8 % 2 : Nat)).1,
            (setField s .ta (g.b / 16 % 2 : Nat)).2 ++
              (setField (setField s .ta (g.b / 16 % 2 : Nat)).1 .ms (g.b / 8 % 2 : Nat)).2)
        else (s, [])) = r1 at h1 ⊢
  generalize (parserUpdate cfg r1.1.set r1.1.ps .ps g.d g.eb g.ed (2 * (g.b % 4))) = u
  have hv1 : ({ r1.1 with ps := u.1 } : State).used.af.getD v false = true := by
    show r1.1.used.af.getD v false = true
    rw [h1]; exact hv
  split
  · exact wd_afMono_addAf _ _ v (wd_afMono_addAf _ _ v hv1)
  · exact hv1

theorem wd_group1_used_af (cfg : Cfg) (s : State) (g : Group) : (group1 cfg s g).1.used.af = s.used.af := by
  unfold group1
  split <;> simp

theorem wd_afMono_dispatch (cfg : Cfg) (s : State) (g : Group) : wd_AfMono s (dispatch cfg s g).1 := by
  unfold dispatch
  split
  · exact wd_afMono_group0 cfg s g
  · split
    · exact wd_afMono_of_eq (wd_group1_used_af cfg s g)
    · split
      · exact wd_afMono_of_eq (by rw [(group2_frame cfg s g).1])
      · split
        · exact wd_afMono_of_eq (by rw [group4_fst])
        · split
          · exact wd_afMono_of_eq (by rw [(group10_frame cfg s g).1])
          · exact wd_afMono_of_eq rfl

theorem wd_afMono_process (cfg : Cfg) (s : State) (g : Group) : wd_AfMono s (process cfg s g).1 := by
  unfold process
  exact wd_afMono_trans (wd_afMono_of_eq (wd_groupCommon_used_af s g)) (wd_afMono_dispatch cfg _ g)

theorem wd_afMono_step (cfg : Cfg) (s : State) (op : Op) (hop : op ≠ .init ∧ op ≠ .clear) :
    wd_AfMono s (step cfg s op).1 := by
  cases op with
  | init => exact absurd rfl hop.1
  | clear => exact absurd rfl hop.2
  | parse g => exact wd_afMono_process cfg s g
  | parseString b =>
    cases b with
    | none => exact wd_afMono_of_eq rfl
    | some bytes =>
      cases hg : utilsConvert bytes with
      | none => simp only [step, hg]; exact wd_afMono_of_eq rfl
      | some g => simp only [step, hg]; exact wd_afMono_process cfg s g
  | _ => exact wd_afMono_of_eq rfl

/-! ## the requested theorems -/

/-- C01 in its own words: in normal mode, after ANY call sequence, each of the five tuning fields equals the last
error-free reception of that field since the last reset, and is "unknown" (-1) before the first one. -/
theorem C01_worded (tb : Tabs) (h : EccOk tb) (ops : List Op) (hn : NormalMode ops) :
    (run tb.cfg ops).used.pi = lastOr (-1) (recvSeq selPi ops) ∧
    (run tb.cfg ops).used.pty = lastOr (-1) (recvSeq selPty ops) ∧
    (run tb.cfg ops).used.tp = lastOr (-1) (recvSeq selTp ops) ∧
    (run tb.cfg ops).used.ta = lastOr (-1) (recvSeq selTa ops) ∧
    (run tb.cfg ops).used.ms = lastOr (-1) (recvSeq selMs ops) := by
  obtain ⟨_, hc, hf⟩ := wd_NInv_all tb.cfg ops hn
  have hl := (reach tb h ops).1
  have hv := fun f => (hl.fields hc f).1
  exact ⟨(hv .pi).trans (hf .pi (by decide)), (hv .pty).trans (hf .pty (by decide)),
    (hv .tp).trans (hf .tp (by decide)), (hv .ta).trans (hf .ta (by decide)),
    (hv .ms).trans (hf .ms (by decide))⟩

/-- "never falls back to unknown except through a reset": once something has been received only `init`/`clear`
can empty the reception sequence -/
theorem C01_never_unknown (sel : Group → Option Int) (ops : List Op) (op : Op)
    (hop : op ≠ .init ∧ op ≠ .clear) (hne : recvSeq sel ops ≠ []) : recvSeq sel (ops ++ [op]) ≠ [] := by
  rw [wd_recvSeq_snoc, wd_recvStep_bind sel _ op hop.1 hop.2]
  cases op.group?.bind sel with
  | none => exact hne
  | some v => simp

theorem C01_received_nonneg (g : Group) (v : Int) :
    (selPi g = some v ∨ selPty g = some v ∨ selTp g = some v ∨ selTa g = some v ∨ selMs g = some v ∨
      selEcc g = some v) → 0 ≤ v := by
  unfold selPi selPty selTp selTa selMs selEcc
  intro h
  rcases h with h | h | h | h | h | h <;> split at h <;>
    first
    | (cases h; exact Int.natCast_nonneg _)
    | cases h

/-- C09 in its own words: with the extended check switched on while the parser is in its reset state, each scalar
shows the value of the most recent two consecutive identical receptions since the last reset, unknown if there is
none -/
theorem C09_worded (tb : Tabs) (h : EccOk tb) (ops : List Op) (he : ExtendedMode ops) :
    (run tb.cfg ops).used.pi = extFold (-1) (recvSeq selPi ops) ∧
    (run tb.cfg ops).used.pty = extFold (-1) (recvSeq selPty ops) ∧
    (run tb.cfg ops).used.tp = extFold (-1) (recvSeq selTp ops) ∧
    (run tb.cfg ops).used.ta = extFold (-1) (recvSeq selTa ops) ∧
    (run tb.cfg ops).used.ms = extFold (-1) (recvSeq selMs ops) ∧
    (run tb.cfg ops).used.ecc = extFold (-1) (recvSeq selEcc ops) := by
  obtain ⟨rest, rfl, hr⟩ := he
  obtain ⟨_, hc, hf⟩ := wd_EInv_all tb.cfg rest hr
  have hl := (reach tb h (.setExt true :: rest)).1
  have hv := fun f => (hl.fields hc f).1
  have hw : ∀ f, f ≠ .country →
      (run tb.cfg (.setExt true :: rest)).used.get f = extFold (-1) (recvSeq (wd_sel f) (.setExt true :: rest)) := by
    intro f hf'
    rw [hv f, hf f hf']
    rfl
  exact ⟨hw .pi (by decide), hw .pty (by decide), hw .tp (by decide), hw .ta (by decide),
    hw .ms (by decide), hw .ecc (by decide)⟩

/-- what `extFold` means: a value different from `unk` is shown only if it occurred in two consecutive receptions -/
theorem extFold_shown (unk : Int) (l : List Int) (v : Int) (hv : extFold unk l = v) (hne : v ≠ unk) :
    ∃ i, l[i]? = some v ∧ l[i + 1]? = some v := by
  rw [wd_extFold_eq] at hv
  rcases wd_extSt_snd unk l with h | h
  · exact absurd (hv.symm.trans h) hne
  · rw [hv] at h; exact h

/-- a sequence without two equal neighbours shows nothing -/
theorem extFold_no_double (unk : Int) (l : List Int)
    (hnd : ∀ i a b, l[i]? = some a → l[i + 1]? = some b → a ≠ b) : extFold unk l = unk := by
  by_cases h : extFold unk l = unk
  · exact h
  · obtain ⟨i, h1, h2⟩ := extFold_shown unk l _ rfl h
    exact absurd rfl (hnd i _ _ h1 h2)

/-- two equal neighbours at the end are shown -/
theorem extFold_double_at_end (unk : Int) (l : List Int) (v : Int) : extFold unk (l ++ [v, v]) = v := by
  have e : l ++ [v, v] = (l ++ [v]) ++ [v] := by simp
  rw [wd_extFold_eq, e, wd_extSt_snoc, wd_extSt_snoc]
  simp

/-- C10 in its own words: the AF list is exactly the set of valid codes (1..204) received in 0A groups since the
last reset — at least once in normal mode, at least twice under the extended check -/
theorem C10_worded_normal (tb : Tabs) (h : EccOk tb) (ops : List Op) (hn : NormalMode ops) (v : Nat)
    (hv : v < afBits) :
    (run tb.cfg ops).used.af.getD v false = (afValid v && decide (1 ≤ afCount v ops)) := by
  obtain ⟨he, hc, _⟩ := wd_NInv_all tb.cfg ops hn
  have hl := (reach tb h ops).1
  have ha := (hl.af hc v hv).1
  rw [← hl.ext, he] at ha
  simp only [Bool.false_eq_true, if_false] at ha
  rw [ha]
  cases hval : afValid v
  · rw [hl.cntInvalid v hval]; rfl
  · rw [(wd_afCount_inv tb.cfg v hval ops).2]; simp

theorem C10_worded_extended (tb : Tabs) (h : EccOk tb) (ops : List Op) (he : ExtendedMode ops) (v : Nat)
    (hv : v < afBits) :
    (run tb.cfg ops).used.af.getD v false = (afValid v && decide (2 ≤ afCount v ops)) := by
  obtain ⟨rest, rfl, hr⟩ := he
  obtain ⟨he, hc, _⟩ := wd_EInv_all tb.cfg rest hr
  have hl := (reach tb h (.setExt true :: rest)).1
  have ha := (hl.af hc v hv).1
  rw [← hl.ext, he] at ha
  simp only [if_true] at ha
  rw [ha]
  cases hval : afValid v
  · rw [hl.cntInvalid v hval]; rfl
  · rw [(wd_afCount_inv tb.cfg v hval _).2]; simp

set_option linter.unusedVariables false in
/-- the list only grows between resets -/
theorem C10_monotone (tb : Tabs) (h : EccOk tb) (ops : List Op) (op : Op) (hop : op ≠ .init ∧ op ≠ .clear)
    (v : Nat) (hb : (run tb.cfg ops).used.af.getD v false = true) :
    (run tb.cfg (ops ++ [op])).used.af.getD v false = true := by
  rw [run_snoc]
  exact wd_afMono_step tb.cfg _ op hop v hb

/-- C17 in its own words: every setting reads back what was last written to that very key since initialisation
(thresholds clamped to 2), and starts as (off, 0, off) -/
theorem C17_worded (cfg : Cfg) (ops : List Op) (t : TextId) (k : BlockType) :
    (run cfg ops).set.corr t k = lastCorr t k ops ∧ (run cfg ops).set.prog t = lastProg t ops ∧
    (run cfg ops).set.ext = lastExt ops := by
  rw [← (wd_reachL cfg ops).1.set]
  exact wd_set_inv cfg t k ops

end RDS

#print axioms RDS.C01_worded
#print axioms RDS.C01_never_unknown
#print axioms RDS.C01_received_nonneg
#print axioms RDS.C09_worded
#print axioms RDS.extFold_shown
#print axioms RDS.extFold_no_double
#print axioms RDS.extFold_double_at_end
#print axioms RDS.C10_worded_normal
#print axioms RDS.C10_worded_extended
#print axioms RDS.C10_monotone
#print axioms RDS.C17_worded
