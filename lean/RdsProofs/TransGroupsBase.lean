import RdsProofs.TransAbs
import RdsProofs.TransString
import RdsProofs.TransBuffer
import RdsProofs.Frame
/-!
# RdsProofs.TransGroupsBase — ECC look-up, the refinement relation `tg_Ref` and its composition,
`abs` of record updates, `rdsparser_group_parse`, `rdsparser_group1_parse`, `rdsparser_group4_parse`

Helper file of `RdsProofs/TransGroups.lean`. All helpers are prefixed `tg_`.
-/
set_option linter.unusedSimpArgs false
set_option linter.unusedVariables false

namespace RDS.C
open RDS
open RDS.C.TransBits (bitsOf)

/-! ## `rdsparser_ecc_lookup` -/

/-- the table part of `rdsparser_ecc_lookup`, as a function of the PI country nibble -/
def tg_eccCore (pc : Int) (ecc : Int) : Int :=
    let pi_id : Int := u8 (pc - 1)
    if decide (160 ≤ ecc) && decide (ecc ≤ 166) then
      let ecc_id : Int := u8 (ecc - 160)
      getI (getL c_rdsparser_ecc_a0_a6_lut ecc_id) pi_id
    else
      if decide (208 ≤ ecc) && decide (ecc ≤ 212) then
        let ecc_id : Int := u8 (ecc - 208)
        getI (getL c_rdsparser_ecc_d0_d4_lut ecc_id) pi_id
      else
        if decide (224 ≤ ecc) && decide (ecc ≤ 229) then
          let ecc_id : Int := u8 (ecc - 224)
          getI (getL c_rdsparser_ecc_e0_e5_lut ecc_id) pi_id
        else
          if decide (240 ≤ ecc) && decide (ecc ≤ 244) then
            let ecc_id : Int := u8 (ecc - 240)
            getI (getL c_rdsparser_ecc_f0_f4_lut ecc_id) pi_id
          else
            0

theorem tg_ecc_shape (pi ecc : Int) :
    c_rdsparser_ecc_lookup pi ecc =
      if (pi != -1 && u8 (band (shr pi 12) 15) != 0) = true then tg_eccCore (u8 (band (shr pi 12) 15)) ecc else 0 := rfl

theorem tg_pc (p : Nat) : u8 (band (shr (p : Int) 12) 15) = ((p / 4096 % 16 : Nat) : Int) := by
  have h : p / 2 ^ 12 &&& 15 = p / 2 ^ 12 % 16 := Nat.and_two_pow_sub_one_eq_mod _ 4
  rw [TransBits.shr_lit, TransBits.band_lit, TransBits.u8_nat, h]
  omega

theorem tg_tab_range (T : List (List Int)) (hT : ∀ row ∈ T, ∀ x ∈ row, 0 ≤ x ∧ x < 256) (i j : Int) :
    0 ≤ getI (getL T i) j ∧ getI (getL T i) j < 256 := by
  unfold getI getL
  simp only [List.getD_eq_getElem?_getD]
  cases h1 : T[i.toNat]? with
  | none => simp
  | some row =>
    have hrow := hT row (List.mem_of_getElem? h1)
    simp only [Option.getD_some]
    cases h2 : row[j.toNat]? with
    | none => simp
    | some x => simpa using hrow x (List.mem_of_getElem? h2)

theorem tg_tabA : ∀ row ∈ c_rdsparser_ecc_a0_a6_lut, ∀ x ∈ row, 0 ≤ x ∧ x < 256 := by decide
theorem tg_tabD : ∀ row ∈ c_rdsparser_ecc_d0_d4_lut, ∀ x ∈ row, 0 ≤ x ∧ x < 256 := by decide
theorem tg_tabE : ∀ row ∈ c_rdsparser_ecc_e0_e5_lut, ∀ x ∈ row, 0 ≤ x ∧ x < 256 := by decide
theorem tg_tabF : ∀ row ∈ c_rdsparser_ecc_f0_f4_lut, ∀ x ∈ row, 0 ≤ x ∧ x < 256 := by decide

theorem tg_eccCore_range (pc ecc : Int) : 0 ≤ tg_eccCore pc ecc ∧ tg_eccCore pc ecc < 256 := by
  unfold tg_eccCore
  simp only []
  split
  · exact tg_tab_range _ tg_tabA _ _
  · split
    · exact tg_tab_range _ tg_tabD _ _
    · split
      · exact tg_tab_range _ tg_tabE _ _
      · split
        · exact tg_tab_range _ tg_tabF _ _
        · omega

theorem tg_ecc_range (pi ecc : Int) : 0 ≤ c_rdsparser_ecc_lookup pi ecc ∧ c_rdsparser_ecc_lookup pi ecc < 256 := by
  rw [tg_ecc_shape]
  split
  · exact tg_eccCore_range _ _
  · omega

/-- the ECC table look-up of the C source, as the model's `eccLookup` over the tables of `cfgC` -/
theorem ecc_lookup_refines (u : Bool) (pi : Int) (hpi : -1 ≤ pi ∧ pi < 65536) (e : Nat) (he : e < 256) :
    c_rdsparser_ecc_lookup pi (e : Int) = eccLookup (cfgC u) pi (e : Int) ∧
    0 ≤ c_rdsparser_ecc_lookup pi (e : Int) ∧ c_rdsparser_ecc_lookup pi (e : Int) < 256 := by
  refine ⟨?_, tg_ecc_range _ _⟩
  by_cases hm : pi = -1
  · subst hm
    simp [tg_ecc_shape, eccLookup]
  · obtain ⟨p, rfl⟩ : ∃ p : Nat, pi = (p : Int) := ⟨pi.toNat, by omega⟩
    have hne : ((p : Int) != -1) = true := by simp [hm]
    unfold eccLookup
    simp only [hm, if_false, Int.toNat_natCast]
    by_cases hn : p / 4096 % 16 = 0
    · simp [tg_ecc_shape, tg_pc, hn]
    · have hn' : ((((p / 4096 % 16 : Nat) : Int)) != 0) = true := by
        simp only [bne_iff_ne, ne_eq]; omega
      simp only [hn, if_false, cfgC]
      have e1 : (((p / 4096 % 16 : Nat) : Int) * 4096) = (((p / 4096 % 16 * 4096 : Nat)) : Int) := by omega
      have e2 : (p / 4096 % 16 * 4096) / 4096 % 16 = p / 4096 % 16 := by omega
      have hne2 : ((((p / 4096 % 16 * 4096 : Nat)) : Int) != -1) = true := by
        simp only [bne_iff_ne, ne_eq]; omega
      rw [e1, tg_ecc_shape, tg_ecc_shape, tg_pc, tg_pc, e2]
      simp only [hne, hne2, hn', Bool.and_self, if_true]
      have := (tg_eccCore_range ((p / 4096 % 16 : Nat) : Int) (e : Int)).1
      omega

/-! ## the refinement relation of one handler and its composition -/

/-- `out` (C state and log after a handler that started with log `log`) denotes the model result `m` -/
def tg_Ref (log : CLog) (out : C_librdsparser × CLog) (m : State × List Event) : Prop :=
  abs out.1 = m.1 ∧ absLog out.2 = absLog log ++ m.2 ∧ CInv out.1

theorem tg_Ref_refl (r : C_librdsparser) (log : CLog) (hI : CInv r) : tg_Ref log (r, log) (abs r, []) :=
  ⟨rfl, by simp, hI⟩

theorem tg_Ref_seq {log : CLog} {out1 out2 : C_librdsparser × CLog} {m1 m2 : State × List Event}
    (h1 : tg_Ref log out1 m1) (h2 : tg_Ref out1.2 out2 m2) : tg_Ref log out2 (m2.1, m1.2 ++ m2.2) :=
  ⟨h2.1, by rw [h2.2.1, h1.2.1, List.append_assoc], h2.2.2⟩

/-- sequential composition where the second handler is a function of the model state -/
theorem tg_Ref_then {log : CLog} {out1 out2 : C_librdsparser × CLog} {m1 : State × List Event}
    (f : State → State × List Event)
    (h1 : tg_Ref log out1 m1) (h2 : CInv out1.1 → tg_Ref out1.2 out2 (f (abs out1.1))) :
    tg_Ref log out2 ((f m1.1).1, m1.2 ++ (f m1.1).2) := by
  have := tg_Ref_seq h1 (h2 h1.2.2)
  rwa [h1.1] at this

theorem tg_Ref_congr {log : CLog} {out : C_librdsparser × CLog} {m m' : State × List Event}
    (h : tg_Ref log out m) (e : m = m') : tg_Ref log out m' := e ▸ h

theorem tg_setField (f : Fld) (r : C_librdsparser) (hI : CInv r) (v : Int) (hv : FldRange f v) (log : CLog) :
    tg_Ref log (cSetField f r v log) (setField (abs r) f v) :=
  set_field_refines f r hI v hv log

theorem tg_addAf (r : C_librdsparser) (hI : CInv r) (v : Nat) (hv : v < 256) (log : CLog) :
    tg_Ref log (c_rdsparser_add_af r (v : Int) log) (addAf (abs r) v) :=
  add_af_refines r hI v hv log

/-! ## the group seen by the C API -/

theorem tg_err0 (g : Group) : (errorsOf g).getD 0 0 = (g.ea : Int) := rfl
theorem tg_err1 (g : Group) : (errorsOf g).getD 1 0 = (g.eb : Int) := rfl
theorem tg_err2 (g : Group) : (errorsOf g).getD 2 0 = (g.ec : Int) := rfl
theorem tg_err3 (g : Group) : (errorsOf g).getD 3 0 = (g.ed : Int) := rfl

theorem tg_beq0 (n : Nat) : (((n : Int)) == 0) = decide (n = 0) := by
  by_cases h : n = 0
  · subst h; rfl
  · have : ¬ ((n : Int) = 0) := by omega
    simp [h, this]

theorem tg_bne0 (n : Nat) : (((n : Int)) != 0) = !decide (n = 0) := by
  rw [bne, tg_beq0]

/-! ## `rdsparser_group_parse` -/

theorem tg_group_parse (r : C_librdsparser) (hI : CInv r) (g : Group) (hg : g.Bounded) (log : CLog) :
    tg_Ref log (c_rdsparser_group_parse r (dataOf g) (errorsOf g) log) (groupCommon (abs r) g) := by
  obtain ⟨ha, hb, hc, hd, hea, heb, hec, hed⟩ := hg
  have hpty : i8 (c_rdsparser_group_get_pty (dataOf g)) = ((g.b / 32 % 32 : Nat) : Int) := by
    unfold dataOf; rw [TransBits.group_get_pty]; apply i8_of_range <;> omega
  have htp : i8 (c_rdsparser_group_get_tp (dataOf g)) = ((g.b / 1024 % 2 : Nat) : Int) := by
    unfold dataOf; rw [TransBits.group_get_tp]; apply i8_of_range <;> omega
  have hpi : c_rdsparser_group_get_pi (dataOf g) = (g.a : Int) := TransBits.group_get_pi _ _ _ _
  -- stage 1: PI
  have s1 : tg_Ref log (if g.ea = 0 then cSetField .pi r g.a log else (r, log))
      (if g.ea = 0 then setField (abs r) .pi g.a else (abs r, [])) := by
    by_cases h : g.ea = 0
    · simp only [h, if_true]; exact tg_setField .pi r hI _ (by simp only [FldRange]; omega) log
    · simp only [h, if_false]; exact tg_Ref_refl r log hI
  generalize hout1 : (if g.ea = 0 then cSetField .pi r g.a log else (r, log)) = out1 at s1
  have e : c_rdsparser_group_parse r (dataOf g) (errorsOf g) log =
      if g.eb = 0 then
        cSetField .tp (cSetField .pty out1.1 ((g.b / 32 % 32 : Nat) : Int) out1.2).1 ((g.b / 1024 % 2 : Nat) : Int)
          (cSetField .pty out1.1 ((g.b / 32 % 32 : Nat) : Int) out1.2).2
      else out1 := by
    subst hout1
    unfold c_rdsparser_group_parse
    simp only [tg_err0, tg_err1, tg_beq0, hpty, htp, hpi, cSetField]
    by_cases h1 : g.ea = 0 <;> by_cases h2 : g.eb = 0 <;> simp [h1, h2]
  rw [e]
  unfold groupCommon
  by_cases h2 : g.eb = 0
  · simp only [h2, if_true]
    have s2 := tg_Ref_then (fun s => setField s .pty ((g.b / 32 % 32 : Nat) : Int)) s1
      (fun hI1 => tg_setField .pty out1.1 hI1 _ (by simp only [FldRange]; omega) out1.2)
    have s3 := tg_Ref_then (fun s => setField s .tp ((g.b / 1024 % 2 : Nat) : Int)) s2
      (fun hI2 => tg_setField .tp _ hI2 _ (by simp only [FldRange]; omega) _)
    exact s3
  · simp only [h2, if_false]
    exact s1

/-! ## version flag -/

/-- the `flag` argument the dispatcher passes on (`rdsparser_parser_get_flag`) -/
def tg_flag (g : Group) : Int := ((g.b / 2048 % 2 : Nat) : Int)

theorem tg_flag_eq (g : Group) : c_rdsparser_parser_get_flag (dataOf g) = tg_flag g :=
  TransBits.parser_get_flag _ _ _ _

theorem tg_flag_beq (g : Group) : (tg_flag g == 0) = !g.versionB := by
  unfold tg_flag
  have h2 : g.b / 2048 % 2 = 0 ∨ g.b / 2048 % 2 = 1 := by omega
  rcases h2 with h2 | h2 <;> simp [Group.versionB, h2]

/-! ## `rdsparser_group1_parse` -/

theorem tg_group1 (u : Bool) (r : C_librdsparser) (hI : CInv r) (g : Group) (hg : g.Bounded) (log : CLog) :
    tg_Ref log (c_rdsparser_group1_parse r (dataOf g) (errorsOf g) (tg_flag g) log) (group1 (cfgC u) (abs r) g) := by
  obtain ⟨ha, hb, hc, hd, hea, heb, hec, hed⟩ := hg
  have hvar : c_rdsparser_group1a_get_variant (dataOf g) = ((g.c / 4096 % 8 : Nat) : Int) :=
    TransBits.group1a_get_variant _ _ _ _
  have hecc : c_rdsparser_group1a0_get_ecc (dataOf g) = ((g.c % 256 : Nat) : Int) :=
    TransBits.group1a0_get_ecc _ _ _ _
  by_cases hc : (!g.versionB && decide (g.eb = 0) && decide (g.ec = 0) && decide (g.c / 4096 % 8 = 0)) = true
  · have e : c_rdsparser_group1_parse r (dataOf g) (errorsOf g) (tg_flag g) log =
        cSetField .country (cSetField .ecc r ((g.c % 256 : Nat) : Int) log).1
          (c_rdsparser_ecc_lookup (c_rdsparser_get_pi (cSetField .ecc r ((g.c % 256 : Nat) : Int) log).1)
            ((g.c % 256 : Nat) : Int))
          (cSetField .ecc r ((g.c % 256 : Nat) : Int) log).2 := by
      simp only [Bool.and_eq_true, decide_eq_true_eq] at hc
      obtain ⟨⟨⟨h1, h2⟩, h3⟩, h4⟩ := hc
      unfold c_rdsparser_group1_parse c_rdsparser_group1a_parse
      simp only [tg_flag_beq, tg_err1, tg_err2, tg_beq0, hvar, hecc, h1, h2, h3, h4, cSetField]
      simp
    rw [e]
    unfold group1
    rw [if_pos hc]
    have s1 := tg_setField .ecc r hI ((g.c % 256 : Nat) : Int) (by simp only [FldRange]; omega) log
    refine tg_Ref_then (fun s => setField s .country (eccLookup (cfgC u) s.used.pi ((g.c % 256 : Nat) : Int))) s1 ?_
    intro hI1
    have hu := hI1.used
    have hl := ecc_lookup_refines u (c_rdsparser_get_pi (cSetField .ecc r ((g.c % 256 : Nat) : Int) log).1)
      ⟨hu.1, hu.2.1⟩ (g.c % 256) (by omega)
    rw [hl.1]
    refine tg_setField .country _ hI1 _ ?_ _
    simp only [FldRange]
    rw [← hl.1]; exact hl.2
  · have e : c_rdsparser_group1_parse r (dataOf g) (errorsOf g) (tg_flag g) log = (r, log) := by
      unfold c_rdsparser_group1_parse c_rdsparser_group1a_parse
      simp only [tg_flag_beq, tg_err1, tg_err2, tg_beq0, hvar]
      by_cases h1 : g.versionB = true
      · simp [h1]
      · by_cases h23 : (decide (g.eb = 0) && decide (g.ec = 0)) = true
        · have h4 : ¬ g.c / 4096 % 8 = 0 := by
            intro h4; apply hc; simp only [Bool.and_eq_true, decide_eq_true_eq] at h23 ⊢
            simp [h1, h23, h4]
          simp [h1, h23, h4]
        · simp [h1, h23]
    rw [e]
    unfold group1
    rw [if_neg hc]
    exact tg_Ref_refl r log hI

/-! ## `rdsparser_group4_parse` -/

theorem tg_ct_offset (mjd hour minute : Nat) (off : Int) (v : CtVal) (hv : ctInit mjd hour minute off = some v) :
    v.offsetMin = off * 30 := by
  unfold ctInit at hv
  split at hv
  · cases hv
  · cases hv; rfl

theorem tg_group4 (r : C_librdsparser) (hI : CInv r) (g : Group) (hg : g.Bounded) (log : CLog) :
    tg_Ref log (r, c_rdsparser_group4_parse r (dataOf g) (errorsOf g) (tg_flag g) log) (group4 (abs r) g) := by
  obtain ⟨ha, hb, hc, hd, hea, heb, hec, hed⟩ := hg
  have hreg : (abs r).registered .ct = (r.callback_ct != 0) := rfl
  by_cases hcnd : (!g.versionB && decide (g.eb = 0) && decide (g.ec = 0) && decide (g.ed = 0) &&
      (abs r).registered .ct) = true
  · have hcnd' := hcnd
    simp only [Bool.and_eq_true, decide_eq_true_eq] at hcnd'
    obtain ⟨⟨⟨⟨h1, h2⟩, h3⟩, h4⟩, h5⟩ := hcnd'
    have h5' : (r.callback_ct != 0) = true := by rw [← hreg]; exact h5
    have hmjd : c_rdsparser_group4a_get_mjd (dataOf g) = (((ctFields g).1 : Nat) : Int) :=
      TransBits.group4a_get_mjd _ _ _ _ hc
    have hhour : i8 (c_rdsparser_group4a_get_hour (dataOf g)) = (((ctFields g).2.1 : Nat) : Int) := by
      unfold dataOf; rw [TransBits.group4a_get_hour _ _ _ _ hd]
      apply i8_of_range <;> omega
    have hmin : i8 (c_rdsparser_group4a_get_minute (dataOf g)) = (((ctFields g).2.2.1 : Nat) : Int) := by
      unfold dataOf; rw [TransBits.group4a_get_minute]
      apply i8_of_range <;> omega
    have hoff : c_rdsparser_group4a_get_time_offset (dataOf g) = (ctFields g).2.2.2 :=
      TransBits.group4a_get_time_offset _ _ _ _
    have hr1 : (ctFields g).1 < 131072 := by simp only [ctFields]; omega
    have hr2 : (ctFields g).2.1 < 32 := by simp only [ctFields]; omega
    have hr3 : (ctFields g).2.2.1 < 64 := by simp only [ctFields]; omega
    have hr4 : -31 ≤ (ctFields g).2.2.2 ∧ (ctFields g).2.2.2 ≤ 31 := by
      simp only [ctFields]; split <;> omega
    have hinit := TransBits.ct_init_eq C_rdsparser_ct.zero _ _ _ _ hr2 hr3 hr4 hr1
    have e : c_rdsparser_group4_parse r (dataOf g) (errorsOf g) (tg_flag g) log =
        match ctInit (ctFields g).1 (ctFields g).2.1 (ctFields g).2.2.1 (ctFields g).2.2.2 with
        | none => log
        | some v => log ++ [⟨"ct", [v.year, v.month, v.day, v.hour, v.minute, (ctFields g).2.2.2, r.user_data], r⟩] := by
      unfold c_rdsparser_group4_parse c_rdsparser_group4a_parse
      simp only [tg_flag_beq, tg_err1, tg_err2, tg_err3, tg_beq0, h1, h2, h3, h4, h5', hmjd, hhour, hmin, hoff, hinit]
      cases ctInit (ctFields g).1 (ctFields g).2.1 (ctFields g).2.2.1 (ctFields g).2.2.2 <;> simp
    rw [e]
    unfold group4
    rw [if_pos hcnd]
    simp only []
    cases hv : ctInit (ctFields g).1 (ctFields g).2.1 (ctFields g).2.2.1 (ctFields g).2.2.2 with
    | none => exact tg_Ref_refl r log hI
    | some v =>
      refine ⟨rfl, ?_, hI⟩
      have ho := tg_ct_offset _ _ _ _ v hv
      simp only [tb_absLog_snoc, emit, h5, if_true]
      have : absEvent ⟨"ct", [v.year, v.month, v.day, v.hour, v.minute, (ctFields g).2.2.2, r.user_data], r⟩ =
          some ⟨.ct ⟨v.year, v.month, v.day, v.hour, v.minute, (ctFields g).2.2.2 * 30⟩, r.user_data.toNat, abs r⟩ := rfl
      rw [this, ← ho]
      rfl
  · have e : c_rdsparser_group4_parse r (dataOf g) (errorsOf g) (tg_flag g) log = log := by
      unfold c_rdsparser_group4_parse c_rdsparser_group4a_parse
      simp only [tg_flag_beq, tg_err1, tg_err2, tg_err3, tg_beq0]
      by_cases h1 : g.versionB = true
      · simp [h1]
      · by_cases h234 : (decide (g.eb = 0) && decide (g.ec = 0) && decide (g.ed = 0)) = true
        · have h5 : (r.callback_ct != 0) = false := by
            rw [← hreg]
            cases h5 : (abs r).registered .ct
            · rfl
            · exfalso; apply hcnd
              simp only [Bool.and_eq_true, decide_eq_true_eq] at h234 ⊢
              simp [h1, h234, h5]
          simp [h1, h234, h5]
        · simp [h1, h234]
    rw [e]
    unfold group4
    rw [if_neg hcnd]
    exact tg_Ref_refl r log hI

end RDS.C

#print axioms RDS.C.ecc_lookup_refines
#print axioms RDS.C.tg_group_parse
#print axioms RDS.C.tg_group1
#print axioms RDS.C.tg_group4
