import RdsProofs.TransGroupsBase
import RdsProofs.TransGroupsText
import RdsProofs.TransGroupsRt
import RdsProofs.TransUtils
/-!
# RdsProofs.TransGroups — the translated group handlers, `rdsparser_parser_process` and the public API
refine the hand-written model

`RdsC/Translated.lean` is generated from `/repo/src/*.c`. Seen through `abs` / `absLog` (`TransAbs.lean`):

* `ecc_lookup_refines` (in `TransGroupsBase.lean`) — `rdsparser_ecc_lookup` = `eccLookup (cfgC u)`;
* `process_refines` — `rdsparser_parser_process` = `process (cfgC u)` (state, callback log, invariant);
* `parse_string_refines` — `rdsparser_parse_string` (NULL, or a C string through `rdsparser_utils_convert`, see
  `TransUtils.lean`) = `step (cfgC u) · (.parseString s)`, including the boolean result;
* `cstep_refines` — every translated public API call = `step (cfgC u)`;
* `crun_refines` — every history of translated API calls: the C state denotes exactly the model state.

Per-handler lemmas: `tg_group_parse`, `tg_group1`, `tg_group4` (`TransGroupsBase.lean`), `tg_group0`, `tg_group10`
(`TransGroupsText.lean`), `tg_group2` (`TransGroupsRt.lean`). All helpers are prefixed `tg_`.
-/
set_option linter.unusedSimpArgs false
set_option linter.unusedVariables false

namespace RDS.C
open RDS

/-! ## `rdsparser_parser_process` -/

/-- the type dispatch of the translated `rdsparser_parser_process` -/
def tg_cdispatch (unicode : Bool) (rds : C_librdsparser) (data errors : List Int) (flag group : Int) (log : CLog) :
    C_librdsparser × CLog :=
  let t11 :=
    if group == 0 then
      let t2 := c_rdsparser_group0_parse unicode rds data errors flag log
      let rds : C_librdsparser := t2.1
      let log : CLog := t2.2
      (rds, log)
    else
      let t10 :=
        if group == 1 then
          let t3 := c_rdsparser_group1_parse rds data errors flag log
          let rds : C_librdsparser := t3.1
          let log : CLog := t3.2
          (rds, log)
        else
          let t9 :=
            if group == 2 then
              let t4 := c_rdsparser_group2_parse unicode rds data errors flag log
              let rds : C_librdsparser := t4.1
              let log : CLog := t4.2
              (rds, log)
            else
              let t8 :=
                if group == 4 then
                  let t5 := c_rdsparser_group4_parse rds data errors flag log
                  let log : CLog := t5
                  (rds, log)
                else
                  let t7 :=
                    if group == 10 then
                      let t6 := c_rdsparser_group10_parse unicode rds data errors flag log
                      let rds : C_librdsparser := t6.1
                      let log : CLog := t6.2
                      (rds, log)
                    else
                      (rds, log)
                  let rds : C_librdsparser := t7.1
                  let log : CLog := t7.2
                  (rds, log)
              let rds : C_librdsparser := t8.1
              let log : CLog := t8.2
              (rds, log)
          let rds : C_librdsparser := t9.1
          let log : CLog := t9.2
          (rds, log)
      let rds : C_librdsparser := t10.1
      let log : CLog := t10.2
      (rds, log)
  let rds : C_librdsparser := t11.1
  let log : CLog := t11.2
  (rds, log)

theorem tg_process_shape (u : Bool) (r : C_librdsparser) (data errors : List Int) (log : CLog) :
    c_rdsparser_parser_process u r data errors log =
      tg_cdispatch u (c_rdsparser_group_parse r data errors log).1 data errors (c_rdsparser_parser_get_flag data)
        (c_rdsparser_parser_get_group data) (c_rdsparser_group_parse r data errors log).2 := rfl

theorem tg_beq_lit (n k : Nat) : (((n : Int)) == ((k : Nat) : Int)) = decide (n = k) := by
  rw [Bool.eq_iff_iff, beq_iff_eq, decide_eq_true_eq]; omega

theorem tg_dispatch (u : Bool) (r : C_librdsparser) (hI : CInv r) (g : Group) (hg : g.Bounded) (log : CLog) :
    tg_Ref log (tg_cdispatch u r (dataOf g) (errorsOf g) (tg_flag g) ((g.type : Nat) : Int) log)
      (dispatch (cfgC u) (abs r) g) := by
  have h0 : (((g.type : Nat) : Int) == 0) = decide (g.type = 0) := tg_beq_lit g.type 0
  have h1 : (((g.type : Nat) : Int) == 1) = decide (g.type = 1) := tg_beq_lit g.type 1
  have h2 : (((g.type : Nat) : Int) == 2) = decide (g.type = 2) := tg_beq_lit g.type 2
  have h4 : (((g.type : Nat) : Int) == 4) = decide (g.type = 4) := tg_beq_lit g.type 4
  have h10 : (((g.type : Nat) : Int) == 10) = decide (g.type = 10) := tg_beq_lit g.type 10
  unfold tg_cdispatch dispatch
  simp only [h0, h1, h2, h4, h10, decide_eq_true_eq]
  by_cases c0 : g.type = 0
  · simp only [c0, if_true]; exact tg_group0 u r hI g hg log
  · simp only [c0, if_false]
    by_cases c1 : g.type = 1
    · simp only [c1, if_true]; exact tg_group1 u r hI g hg log
    · simp only [c1, if_false]
      by_cases c2 : g.type = 2
      · simp only [c2, if_true]; exact tg_group2 u r hI g hg log
      · simp only [c2, if_false]
        by_cases c4 : g.type = 4
        · simp only [c4, if_true]; exact tg_group4 r hI g hg log
        · simp only [c4, if_false]
          by_cases c10 : g.type = 10
          · simp only [c10, if_true]; exact tg_group10 u r hI g hg log
          · simp only [c10, if_false]; exact tg_Ref_refl r log hI

/-- one delivered group: the translated `rdsparser_parser_process` IS the model's `process` -/
theorem process_refines (u : Bool) (r : C_librdsparser) (hI : CInv r) (g : Group) (hg : g.Bounded) (log : CLog) :
    let out := c_rdsparser_parser_process u r (dataOf g) (errorsOf g) log
    abs out.1 = (process (cfgC u) (abs r) g).1 ∧
    absLog out.2 = absLog log ++ (process (cfgC u) (abs r) g).2 ∧ CInv out.1 := by
  intro out
  have s1 := tg_group_parse r hI g hg log
  have s2 := tg_Ref_then (fun s => dispatch (cfgC u) s g) s1 (fun hI1 => tg_dispatch u _ hI1 g hg _)
  have e : out = tg_cdispatch u (c_rdsparser_group_parse r (dataOf g) (errorsOf g) log).1 (dataOf g) (errorsOf g)
      (tg_flag g) ((g.type : Nat) : Int) (c_rdsparser_group_parse r (dataOf g) (errorsOf g) log).2 := by
    show c_rdsparser_parser_process u r (dataOf g) (errorsOf g) log = _
    rw [tg_process_shape, tg_flag_eq]
    unfold dataOf
    rw [TransBits.parser_get_group_model]
  rw [e]
  exact s2

/-! ## `rdsparser_parse_string` -/

/-- the argument of `rdsparser_parse_string` as the translated function receives it: NULL, or the bytes of the C string -/
def cstrArg (s : Option (List Nat)) : Option (List Int) := s.map (List.map Int.ofNat)

/-- a group accepted by `utilsConvert` is within the C API's ranges -/
theorem tg_convert_bounded (bytes : List Nat) (g : Group) (h : utilsConvert bytes = some g) : g.Bounded := by
  unfold utilsConvert at h
  split at h
  · split at h
    · rename_i a b c d e ha hb hc hd he
      injection h with h
      subst h
      have l4 : ∀ (l : List Nat), (l.take 4).length ≤ 4 := fun l => by rw [List.length_take]; omega
      have bd : ∀ (l : List Nat) (v : Nat), hexNum? (l.take 4) = some v → v < 65536 := by
        intro l v hv
        have h1 := (tu_hexNum_some _ _ hv).2.2
        have h2 : 16 ^ (l.take 4).length ≤ 16 ^ 4 := Nat.pow_le_pow_right (by decide) (l4 l)
        have h3 : (16 : Nat) ^ 4 = 65536 := by decide
        omega
      exact ⟨bd _ _ ha, bd _ _ hb, bd _ _ hc, bd _ _ hd, (by show e / 64 % 4 < 256; omega),
        (by show e / 16 % 4 < 256; omega), (by show e / 4 % 4 < 256; omega), (by show e % 4 < 256; omega)⟩
    · exact absurd h (by simp)
  · exact absurd h (by simp)

/-- `rdsparser_parse_string`: the translated function IS the model's `step · (.parseString s)` — state, callbacks,
invariant and the boolean result -/
theorem parse_string_refines (u : Bool) (r : C_librdsparser) (hI : CInv r) (s : Option (List Nat))
    (hs : Op.Bounded (.parseString s)) (log : CLog) :
    abs (c_rdsparser_parse_string u r (cstrArg s) log).2.1 = (step (cfgC u) (abs r) (.parseString s)).1 ∧
    absLog (c_rdsparser_parse_string u r (cstrArg s) log).2.2 =
      absLog log ++ (step (cfgC u) (abs r) (.parseString s)).2.1 ∧
    CInv (c_rdsparser_parse_string u r (cstrArg s) log).2.1 ∧
    (c_rdsparser_parse_string u r (cstrArg s) log).1 = b2i (step (cfgC u) (abs r) (.parseString s)).2.2 := by
  cases s with
  | none => exact ⟨rfl, (List.append_nil _).symm, hI, rfl⟩
  | some bytes =>
    have hb : ∀ b ∈ bytes, 1 ≤ b ∧ b < 256 := hs
    obtain ⟨hiff, hsome⟩ := utils_convert_refines bytes hb (List.replicate 4 0) (List.replicate 4 0) rfl rfl
    cases hu : utilsConvert bytes with
    | none =>
      have h0 := hiff.2 hu
      have e : c_rdsparser_parse_string u r (cstrArg (some bytes)) log = (0, r, log) := by
        unfold c_rdsparser_parse_string cstrArg
        simp only [Option.map_some, Option.isSome_some, if_true, Option.getD_some, h0, bne_self_eq_false,
          Bool.false_eq_true, if_false]
      have hm : step (cfgC u) (abs r) (.parseString (some bytes)) = (abs r, [], false) := by
        simp only [step, hu]
      rw [e, hm]
      exact ⟨rfl, (List.append_nil _).symm, hI, rfl⟩
    | some g =>
      have hc := hsome g hu
      have hg := tg_convert_bounded bytes g hu
      obtain ⟨p1, p2, p3⟩ := process_refines u r hI g hg log
      have e : c_rdsparser_parse_string u r (cstrArg (some bytes)) log =
          (1, (c_rdsparser_parser_process u r (dataOf g) (errorsOf g) log).1,
            (c_rdsparser_parser_process u r (dataOf g) (errorsOf g) log).2) := by
        unfold c_rdsparser_parse_string cstrArg
        simp only [Option.map_some, Option.isSome_some, if_true, Option.getD_some, hc]
        rfl
      have hm : step (cfgC u) (abs r) (.parseString (some bytes)) =
          ((process (cfgC u) (abs r) g).1, (process (cfgC u) (abs r) g).2, true) := by
        simp only [step, hu]
      rw [e, hm]
      exact ⟨p1, p2, p3, rfl⟩

/-! ## the public API -/

/-- the translated public API as one step function -/
def cstep (u : Bool) (r : C_librdsparser) : Op → C_librdsparser × CLog
  | .init => (c_rdsparser_init r, [])
  | .clear => (c_rdsparser_clear r, [])
  | .parse g => c_rdsparser_parse u r (dataOf g) (errorsOf g) []
  | .parseString s => ((c_rdsparser_parse_string u r (cstrArg s) []).2.1, (c_rdsparser_parse_string u r (cstrArg s) []).2.2)
  | .setExt v => (c_rdsparser_set_extended_check r (b2i v), [])
  | .setCorr t k v => (c_rdsparser_set_text_correction r (textIdx t) (typeIdx k) (v : Int), [])
  | .setProg t v => (c_rdsparser_set_text_progressive r (textIdx t) (b2i v), [])
  | .register c on => (cRegister c r (b2i on), [])
  | .userData n => (c_rdsparser_set_user_data r (n : Int), [])
  | .getters => (r, [])

/-- ops of the translated fragment within the C API's argument ranges: every op of the public API, with
`Op.Bounded` (RdsSpec/Statements.lean) — 16-bit blocks, 8-bit error levels and thresholds, and for `parseString`
NULL or a C string (every byte 1..255) -/
def Op.Translatable (op : Op) : Prop := op.Bounded

theorem cstep_refines (u : Bool) (r : C_librdsparser) (hI : CInv r) (op : Op) (hop : Op.Translatable op) :
    abs (cstep u r op).1 = (step (cfgC u) (abs r) op).1 ∧
    absLog (cstep u r op).2 = (step (cfgC u) (abs r) op).2.1 ∧ CInv (cstep u r op).1 := by
  cases op with
  | init => exact ⟨(tb_init_refines r).1, rfl, (tb_init_refines r).2⟩
  | clear => exact ⟨(tb_clear_refines r hI).1, rfl, (tb_clear_refines r hI).2⟩
  | parse g =>
    have hg : g.Bounded := hop
    obtain ⟨h1, h2, h3⟩ := process_refines u r hI g hg []
    have h2' : absLog (c_rdsparser_parser_process u r (dataOf g) (errorsOf g) []).2 =
        (process (cfgC u) (abs r) g).2 := by
      rw [h2]; exact List.nil_append _
    exact ⟨h1, h2', h3⟩
  | parseString s =>
    obtain ⟨h1, h2, h3, _⟩ := parse_string_refines u r hI s hop []
    exact ⟨h1, h2.trans (List.nil_append _), h3⟩
  | setExt v => exact ⟨(set_extended_check_refines r hI v).1, rfl, (set_extended_check_refines r hI v).2⟩
  | setCorr t k v =>
    have hv : v < 256 := hop
    exact ⟨(set_text_correction_refines r hI t k v hv).1, rfl, (set_text_correction_refines r hI t k v hv).2⟩
  | setProg t v =>
    exact ⟨(set_text_progressive_refines r hI t v).1, rfl, (set_text_progressive_refines r hI t v).2⟩
  | register c on => exact ⟨(register_refines r hI c on).1, rfl, (register_refines r hI c on).2⟩
  | userData n => exact ⟨(set_user_data_refines r hI n).1, rfl, (set_user_data_refines r hI n).2⟩
  | getters => exact ⟨rfl, rfl, hI⟩

def crun (u : Bool) (ops : List Op) : C_librdsparser :=
  ops.foldl (fun r op => (cstep u r op).1) (c_rdsparser_init C_librdsparser.zero)

theorem tg_run_from (u : Bool) (ops : List Op) (hops : ∀ op ∈ ops, Op.Translatable op) (r : C_librdsparser)
    (hI : CInv r) :
    abs (ops.foldl (fun r op => (cstep u r op).1) r) = runFrom (cfgC u) (abs r) ops ∧
    CInv (ops.foldl (fun r op => (cstep u r op).1) r) := by
  induction ops generalizing r with
  | nil => exact ⟨rfl, hI⟩
  | cons op ops ih =>
    obtain ⟨h1, _, h3⟩ := cstep_refines u r hI op (hops op List.mem_cons_self)
    have := ih (fun o ho => hops o (List.mem_cons_of_mem _ ho)) (cstep u r op).1 h3
    simp only [List.foldl_cons, runFrom]
    rw [h1] at this
    exact this

/-- every history of translated API calls: the C state denotes exactly the model state -/
theorem crun_refines (u : Bool) (ops : List Op) (hops : ∀ op ∈ ops, Op.Translatable op) :
    abs (crun u ops) = run (cfgC u) ops ∧ CInv (crun u ops) := by
  have h0 := tb_init_refines C_librdsparser.zero
  have := tg_run_from u ops hops _ h0.2
  rw [h0.1] at this
  exact this

end RDS.C

#print axioms RDS.C.ecc_lookup_refines
#print axioms RDS.C.process_refines
#print axioms RDS.C.parse_string_refines
#print axioms RDS.C.cstep_refines
#print axioms RDS.C.crun_refines
