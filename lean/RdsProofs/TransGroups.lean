import RdsProofs.TransGroupsBase
import RdsProofs.TransGroupsText
import RdsProofs.TransGroupsRt
/-!
# RdsProofs.TransGroups — the translated group handlers, `rdsparser_parser_process` and the public API
refine the hand-written model

`RdsC/Translated.lean` is generated from `/repo/src/*.c`. Seen through `abs` / `absLog` (`TransAbs.lean`):

* `ecc_lookup_refines` (in `TransGroupsBase.lean`) — `rdsparser_ecc_lookup` = `eccLookup (cfgC u)`;
* `process_refines` — `rdsparser_parser_process` = `process (cfgC u)` (state, callback log, invariant);
* `cstep_refines` — every translated public API call = `step (cfgC u)`;
* `crun_refines` — every history of translated API calls: the C state denotes exactly the model state.

Per-handler lemmas: `tg_group_parse`, `tg_group1`, `tg_group4` (`TransGroupsBase.lean`), `tg_group0`, `tg_group10`
(`TransGroupsText.lean`), `tg_group2` (`TransGroupsRt.lean`). All helpers are prefixed `tg_`.
-/
set_option linter.unusedSimpArgs false
set_option linter.unusedVariables false

namespace RDS.C
open RDS

/-! ## `rdsparser_parser_process` -/

/-- the type dispatch of the translated `rdsparser_parser_process` -/
def tg_cdispatch (unicode : Bool) (rds : C_librdsparser) (data errors : List Int) (flag group : Int) (log : CLog) :
    C_librdsparser × CLog :=
  let t11 :=
    if group == 0 then
      let t2 := c_rdsparser_group0_parse unicode rds data errors flag log
      let rds : C_librdsparser := t2.1
      let log : CLog := t2.2
      (rds, log)
    else
      let t10 :=
        if group == 1 then
          let t3 := c_rdsparser_group1_parse rds data errors flag log
          let rds : C_librdsparser := t3.1
          let log : CLog := t3.2
          (rds, log)
        else
          let t9 :=
            if group == 2 then
              let t4 := c_rdsparser_group2_parse unicode rds data errors flag log
              let rds : C_librdsparser := t4.1
              let log : CLog := t4.2
              (rds, log)
            else
              let t8 :=
                if group == 4 then
                  let t5 := c_rdsparser_group4_parse rds data errors flag log
                  let log : CLog := t5
                  (rds, log)
                else
                  let t7 :=
                    if group == 10 then
                      let t6 := c_rdsparser_group10_parse unicode rds data errors flag log
                      let rds : C_librdsparser := t6.1
                      let log : CLog := t6.2
                      (rds, log)
                    else
                      (rds, log)
                  let rds : C_librdsparser := t7.1
                  let log : CLog := t7.2
                  (rds, log)
              let rds : C_librdsparser := t8.1
              let log : CLog := t8.2
              (rds, log)
          let rds : C_librdsparser := t9.1
          let log : CLog := t9.2
          (rds, log)
      let rds : C_librdsparser := t10.1
      let log : CLog := t10.2
      (rds, log)
  let rds : C_librdsparser := t11.1
  let log : CLog := t11.2
  (rds, log)

theorem tg_process_shape (u : Bool) (r : C_librdsparser) (data errors : List Int) (log : CLog) :
    c_rdsparser_parser_process u r data errors log =
      tg_cdispatch u (c_rdsparser_group_parse r data errors log).1 data errors (c_rdsparser_parser_get_flag data)
        (c_rdsparser_parser_get_group data) (c_rdsparser_group_parse r data errors log).2 := rfl

theorem tg_beq_lit (n k : Nat) : (((n : Int)) == ((k : Nat) : Int)) = decide (n = k) := by
  rw [Bool.eq_iff_iff, beq_iff_eq, decide_eq_true_eq]; omega

theorem tg_dispatch (u : Bool) (r : C_librdsparser) (hI : CInv r) (g : Group) (hg : g.Bounded) (log : CLog) :
    tg_Ref log (tg_cdispatch u r (dataOf g) (errorsOf g) (tg_flag g) ((g.type : Nat) : Int) log)
      (dispatch (cfgC u) (abs r) g) := by
  have h0 : (((g.type : Nat) : Int) == 0) = decide (g.type = 0) := tg_beq_lit g.type 0
  have h1 : (((g.type : Nat) : Int) == 1) = decide (g.type = 1) := tg_beq_lit g.type 1
  have h2 : (((g.type : Nat) : Int) == 2) = decide (g.type = 2) := tg_beq_lit g.type 2
  have h4 : (((g.type : Nat) : Int) == 4) = decide (g.type = 4) := tg_beq_lit g.type 4
  have h10 : (((g.type : Nat) : Int) == 10) = decide (g.type = 10) := tg_beq_lit g.type 10
  unfold tg_cdispatch dispatch
  simp only [h0, h1, h2, h4, h10, decide_eq_true_eq]
  by_cases c0 : g.type = 0
  · simp only [c0, if_true]; exact tg_group0 u r hI g hg log
  · simp only [c0, if_false]
    by_cases c1 : g.type = 1
    · simp only [c1, if_true]; exact tg_group1 u r hI g hg log
    · simp only [c1, if_false]
      by_cases c2 : g.type = 2
      · simp only [c2, if_true]; exact tg_group2 u r hI g hg log
      · simp only [c2, if_false]
        by_cases c4 : g.type = 4
        · simp only [c4, if_true]; exact tg_group4 r hI g hg log
        · simp only [c4, if_false]
          by_cases c10 : g.type = 10
          · simp only [c10, if_true]; exact tg_group10 u r hI g hg log
          · simp only [c10, if_false]; exact tg_Ref_refl r log hI

/-- one delivered group: the translated `rdsparser_parser_process` IS the model's `process` -/
theorem process_refines (u : Bool) (r : C_librdsparser) (hI : CInv r) (g : Group) (hg : g.Bounded) (log : CLog) :
    let out := c_rdsparser_parser_process u r (dataOf g) (errorsOf g) log
    abs out.1 = (process (cfgC u) (abs r) g).1 ∧
    absLog out.2 = absLog log ++ (process (cfgC u) (abs r) g).2 ∧ CInv out.1 := by
  intro out
  have s1 := tg_group_parse r hI g hg log
  have s2 := tg_Ref_then (fun s => dispatch (cfgC u) s g) s1 (fun hI1 => tg_dispatch u _ hI1 g hg _)
  have e : out = tg_cdispatch u (c_rdsparser_group_parse r (dataOf g) (errorsOf g) log).1 (dataOf g) (errorsOf g)
      (tg_flag g) ((g.type : Nat) : Int) (c_rdsparser_group_parse r (dataOf g) (errorsOf g) log).2 := by
    show c_rdsparser_parser_process u r (dataOf g) (errorsOf g) log = _
    rw [tg_process_shape, tg_flag_eq]
    unfold dataOf
    rw [TransBits.parser_get_group_model]
  rw [e]
  exact s2

/-! ## the public API -/

/-- the translated public API as one step function (`parse_string` is not translated: libc) -/
def cstep (u : Bool) (r : C_librdsparser) : Op → C_librdsparser × CLog
  | .init => (c_rdsparser_init r, [])
  | .clear => (c_rdsparser_clear r, [])
  | .parse g => c_rdsparser_parse u r (dataOf g) (errorsOf g) []
  | .parseString _ => (r, [])
  | .setExt v => (c_rdsparser_set_extended_check r (b2i v), [])
  | .setCorr t k v => (c_rdsparser_set_text_correction r (textIdx t) (typeIdx k) (v : Int), [])
  | .setProg t v => (c_rdsparser_set_text_progressive r (textIdx t) (b2i v), [])
  | .register c on => (cRegister c r (b2i on), [])
  | .userData n => (c_rdsparser_set_user_data r (n : Int), [])
  | .getters => (r, [])

/-- ops of the translated fragment within the C API's argument ranges -/
def Op.Translatable : Op → Prop
  | .parseString _ => False
  | op => op.Bounded        -- `Op.Bounded` is in RdsSpec/Statements.lean

theorem cstep_refines (u : Bool) (r : C_librdsparser) (hI : CInv r) (op : Op) (hop : Op.Translatable op) :
    abs (cstep u r op).1 = (step (cfgC u) (abs r) op).1 ∧
    absLog (cstep u r op).2 = (step (cfgC u) (abs r) op).2.1 ∧ CInv (cstep u r op).1 := by
  cases op with
  | init => exact ⟨(tb_init_refines r).1, rfl, (tb_init_refines r).2⟩
  | clear => exact ⟨(tb_clear_refines r hI).1, rfl, (tb_clear_refines r hI).2⟩
  | parse g =>
    have hg : g.Bounded := hop
    obtain ⟨h1, h2, h3⟩ := process_refines u r hI g hg []
    have h2' : absLog (c_rdsparser_parser_process u r (dataOf g) (errorsOf g) []).2 =
        (process (cfgC u) (abs r) g).2 := by
      rw [h2]; exact List.nil_append _
    exact ⟨h1, h2', h3⟩
  | parseString s => exact absurd hop (by simp [Op.Translatable])
  | setExt v => exact ⟨(set_extended_check_refines r hI v).1, rfl, (set_extended_check_refines r hI v).2⟩
  | setCorr t k v =>
    have hv : v < 256 := hop
    exact ⟨(set_text_correction_refines r hI t k v hv).1, rfl, (set_text_correction_refines r hI t k v hv).2⟩
  | setProg t v =>
    exact ⟨(set_text_progressive_refines r hI t v).1, rfl, (set_text_progressive_refines r hI t v).2⟩
  | register c on => exact ⟨(register_refines r hI c on).1, rfl, (register_refines r hI c on).2⟩
  | userData n => exact ⟨(set_user_data_refines r hI n).1, rfl, (set_user_data_refines r hI n).2⟩
  | getters => exact ⟨rfl, rfl, hI⟩

def crun (u : Bool) (ops : List Op) : C_librdsparser :=
  ops.foldl (fun r op => (cstep u r op).1) (c_rdsparser_init C_librdsparser.zero)

theorem tg_run_from (u : Bool) (ops : List Op) (hops : ∀ op ∈ ops, Op.Translatable op) (r : C_librdsparser)
    (hI : CInv r) :
    abs (ops.foldl (fun r op => (cstep u r op).1) r) = runFrom (cfgC u) (abs r) ops ∧
    CInv (ops.foldl (fun r op => (cstep u r op).1) r) := by
  induction ops generalizing r with
  | nil => exact ⟨rfl, hI⟩
  | cons op ops ih =>
    obtain ⟨h1, _, h3⟩ := cstep_refines u r hI op (hops op List.mem_cons_self)
    have := ih (fun o ho => hops o (List.mem_cons_of_mem _ ho)) (cstep u r op).1 h3
    simp only [List.foldl_cons, runFrom]
    rw [h1] at this
    exact this

/-- every history of translated API calls: the C state denotes exactly the model state -/
theorem crun_refines (u : Bool) (ops : List Op) (hops : ∀ op ∈ ops, Op.Translatable op) :
    abs (crun u ops) = run (cfgC u) ops ∧ CInv (crun u ops) := by
  have h0 := tb_init_refines C_librdsparser.zero
  have := tg_run_from u ops hops _ h0.2
  rw [h0.1] at this
  exact this

end RDS.C

#print axioms RDS.C.ecc_lookup_refines
#print axioms RDS.C.process_refines
#print axioms RDS.C.cstep_refines
#print axioms RDS.C.crun_refines
