import RdsModel
import RdsModel.Generated
import RdsSpec
/-!
# rdsmodel — native driver of the executable model

  rdsmodel run   <u|n> <ops-file>               print the model's canonical trace
  rdsmodel check <u|n> <ops-file> <impl-trace>  compare the real library's trace with the
                                                model component by component and evaluate the
                                                property predicates (`RdsSpec.Monitors`) on it
-/
open RDS

instance : Inhabited Mon := ⟨Mon.init⟩

/-- the generated tables behind O(1) arrays (same functions as `Generated.cfg`) -/
def fastCfg (unicode : Bool) : Cfg :=
  let g0a := Generated.g0.toArray
  let ecca := (Generated.eccCountry.map List.toArray).toArray
  { unicode := unicode,
    g0 := fun b => g0a.getD b 0x20,
    ecc := fun nib e => (ecca.getD (nib + 1) #[]).getD e 0 }

def cfgOf (s : String) : Cfg := fastCfg (s != "n")

/-! ## run mode -/

/-- `ri m` lines switch the harness's callbacks to "call the API from inside" (DESIGN.md §3.6) -/
def riOf (line : String) : Option Nat :=
  match (line.trimAscii.toString.splitOn " ").filter (· ≠ "") with
  | ["ri", n] => n.toNat?
  | _ => none

/-- one harness operation under re-entrancy mode `reent`: the nested-call model for the modelled modes
(`RdsModel.Reentrant`; equal to `mstep` for mode 0 by `mstepH_noop`), the plain model otherwise -/
def mstepR (cfg : Cfg) (reent : Nat) (w : World) (m : MOp) : World × List Event × Bool :=
  if reent = 0 then mstep cfg w m else
  match handlerOfMode cfg reent with
  | some h =>
    let r := mstepH cfg h w m
    -- modes below 7000: the harness reads the "own" value of an event after the nested call was made (none of these
    -- handlers invokes callbacks); modes 7000+: it reads it before
    if reent < 7000 then (r.1, r.2.1.map (fun e => { e with snap := (h e e.snap).1 }), r.2.2) else r
  | none => mstep cfg w m

structure Drv where
  w : World := World.init
  reent : Nat := 0
  prev : Array (Option Obs) := Array.replicate numSlots none
  k : Nat := 0

/-- how an ops-file line acts on the current world -/
inductive Act
  | bad
  | emptySlot
  | go (m : MOp) (fresh : Bool)

def actOf (w : World) (line : String) : Act :=
  match parseLine line with
  | .bad => .bad
  | .initLine =>
    match w.get w.cur with
    | none => .go .create true
    | some _ => .go (.op .init) true
  | .mop .create => .go .create true
  | .mop (.op o) =>
    match w.get w.cur with
    | none => .emptySlot
    | some _ => .go (.op o) false
  | .mop m => .go m false

/-- lines printed for one op line; mirrors `harness.c` -/
def drvStep (cfg : Cfg) (d : Drv) (line : String) : Drv × List String :=
  let k := d.k
  let d := { d with k := k + 1, reent := (riOf line).getD d.reent }
  let cur := d.w.cur
  match actOf d.w line with
  | .bad => (d, [s!"O {k} {cur} 1", "X bad op line"])
  | .emptySlot => (d, [s!"O {k} {cur} 1", "X op on empty slot"])
  | .go m fresh =>
    let r := mstepR cfg d.reent d.w m
    let w' := r.1
    let cur' := w'.cur
    let head := s!"O {k} {cur'} {b2s r.2.2}"
    match m with
    | .select _ => ({ d with w := w' }, [head])
    | _ =>
      let evs := (sortEvs (r.2.1.map EvObs.ofEvent)).map evLine
      match w'.get cur' with
      | none => ({ d with w := w', prev := d.prev.set! cur' none }, head :: evs)
      | some s =>
        let now := Obs.ofState s
        let prev := if fresh then none else d.prev[cur']!
        ({ d with w := w', prev := d.prev.set! cur' (some now) }, head :: evs ++ deltaLines prev now)

partial def nextOpLine (h : IO.FS.Stream) : IO (Option String) := do
  let line ← h.getLine
  if line.isEmpty then return none
  let t := line.trimAscii.toString
  if t.isEmpty || t.startsWith "#" then nextOpLine h else return some t

partial def runLoop (cfg : Cfg) (h : IO.FS.Stream) (out : IO.FS.Stream) (d : Drv) (buf : String) (nbuf : Nat) : IO Drv := do
  match ← nextOpLine h with
  | none =>
    out.putStr buf
    return d
  | some t =>
    let (d', ls) := drvStep cfg d t
    let buf := ls.foldl (fun b l => b ++ l ++ "\n") buf
    if nbuf ≥ 512 then
      out.putStr buf
      runLoop cfg h out d' "" 0
    else
      runLoop cfg h out d' buf (nbuf + 1)

/-! ## check mode -/

structure Chk where
  w : World := World.init
  reent : Nat := 0
  impl : Array (Option Obs) := Array.replicate numSlots none
  mons : Array Mon := Array.replicate numSlots Mon.init
  /-- memo of the C16 verdict per slot (recomputed only when a text changed) -/
  c16ok : Array Bool := Array.replicate numSlots true
  k : Nat := 0
  nDiv : Nat := 0
  nMon : Nat := 0
  /-- MON lines already shown, per property: the cap on the output is per property, so that many failures of one
  property's predicate never hide the first failure of another one's -/
  monShown : List (String × Nat) := []
  /-- DIV lines already shown, per component -/
  divShown : List (String × Nat) := []
  nX : Nat := 0
  nEvents : Nat := 0
  nGroups : Nat := 0
  nStateChange : Nat := 0
  /-- histogram: events per kind -/
  evHist : Array Nat := Array.replicate 12 0
  /-- histogram: monitor predicates evaluated non-trivially -/
  lookahead : Option String := none

def implRet (ws : List String) : Option (Nat × Nat × Bool) :=
  match ws with
  | ["O", k, i, r] => match k.toNat?, i.toNat? with
    | some k, some i => some (k, i, r == "1")
    | _, _ => none
  | _ => none

/-- read the record of one op from the implementation trace: the `O` line and everything up
to the next `O`/`END` line -/
partial def readRecord (h : IO.FS.Stream) (la : Option String) : IO (Option (String × List String) × Option String) := do
  let first ← match la with
    | some l => pure l
    | none => do let l ← h.getLine; pure (l.trimAscii.toString)
  if first.isEmpty || first.startsWith "END" then return (none, some first)
  let rec collect (acc : List String) : IO (List String × Option String) := do
    let l ← h.getLine
    if l.isEmpty then return (acc.reverse, none)
    let t := l.trimAscii.toString
    if t.startsWith "O " || t.startsWith "END" then return (acc.reverse, some t)
    collect (t :: acc)
  let (body, la') ← collect []
  return (some (first, body), la')

def cmpComp {α} [BEq α] (name : String) (show_ : α → String) (impl model : α) : List String :=
  if impl == model then [] else [s!"{name} | impl={show_ impl} | model={show_ model}"]

def cmpText (tid : Nat) (a b : TextObs) : List String :=
  cmpComp s!"T{tid}.cells" cellsStr a.cells b.cells ++
  cmpComp s!"T{tid}.term" toString a.term b.term ++
  cmpComp s!"T{tid}.len" toString a.len b.len ++
  cmpComp s!"T{tid}.av" toString a.av b.av

def cmpObs (a b : Obs) : List String :=
  cmpComp "S.pi" toString a.sc.pi b.sc.pi ++ cmpComp "S.pty" toString a.sc.pty b.sc.pty ++
  cmpComp "S.tp" toString a.sc.tp b.sc.tp ++ cmpComp "S.ta" toString a.sc.ta b.sc.ta ++
  cmpComp "S.ms" toString a.sc.ms b.sc.ms ++ cmpComp "S.ecc" toString a.sc.ecc b.sc.ecc ++
  cmpComp "S.country" toString a.sc.country b.sc.country ++
  cmpComp "A" afStr a.sc.af b.sc.af ++
  cmpText 0 a.ps b.ps ++ cmpText 1 a.rt0 b.rt0 ++ cmpText 2 a.rt1 b.rt1 ++ cmpText 3 a.ptyn b.ptyn ++
  cmpComp "G" settingsLine a.set b.set

def cmpEvents (impl model : List EvObs) : List String :=
  (List.range 12).flatMap fun kind =>
    let f (l : List EvObs) := ((l.filter (fun e => e.kind.idx == kind)).map evLine)
    cmpComp s!"E{kind}" (fun l => "; ".intercalate l) (f impl) (f model)

def tabs (cfg : Cfg) : Tabs := ⟨cfg, Generated.countryCount⟩

/-- process one op: returns the new state and the report lines -/
def chkStep (cfg : Cfg) (c : Chk) (opLine : String) (rec : String × List String) (limit : Nat) : Chk × List String :=
  let k := c.k
  let c := { c with k := k + 1, reent := (riOf opLine).getD c.reent }
  let cur := c.w.cur
  let (oline, body) := rec
  let xs := body.filter (·.startsWith "X")
  let c := { c with nX := c.nX + xs.length }
  let xrep := xs.map (fun x => s!"XLINE {k} {cur} {x}")
  match actOf c.w opLine, implRet (oline.splitOn " ") with
  | .bad, _ => (c, [s!"ERR {k} bad op line: {opLine}"])
  | .emptySlot, _ => (c, [s!"ERR {k} op on empty slot: {opLine}"])
  | _, none => (c, [s!"ERR {k} malformed trace record: {oline}"])
  | .go m fresh, some (ik, iinst, iret) =>
    let r := mstepR cfg c.reent c.w m
    let w' := r.1
    let cur' := w'.cur
    let hdr := (if ik != k then [s!"ERR {k} trace op index {ik}"] else []) ++
               (if iinst != cur' then [s!"DIV {k} {cur'} inst | impl={iinst} | model={cur'}"] else [])
    match m with
    | .select _ => ({ c with w := w' }, hdr ++ xrep)
    | _ =>
      -- implementation side: events and observation
      let evLines := body.filter (·.startsWith "E ")
      let stLines := body.filter (fun l => !(l.startsWith "E ") && !(l.startsWith "X"))
      let ievs? := evLines.map parseEvent?
      let ievs := ievs?.filterMap id
      let evErr := if ievs?.any Option.isNone then [s!"ERR {k} malformed event line"] else []
      let before : Obs := if fresh then Obs.empty else (c.impl[cur']!).getD Obs.empty
      let (after, stErr) := stLines.foldl (fun (acc : Obs × List String) l =>
        match applyStateLine acc.1 l with
        | some o =>
          if reprintStateLine o l == l then (o, acc.2)
          else if l.startsWith "G " then
            -- a settings getter returned a value outside its domain (e.g. a flag that is neither 0 nor 1):
            -- it cannot be "what was last written to that key" (C17)
            (o, s!"MON C17 {k} {cur'}" :: acc.2)
          else (o, s!"ERR {k} round-trip: {l}" :: acc.2)
        | none => (acc.1, s!"ERR {k} malformed state line: {l}" :: acc.2)) (before, [])
      -- model side
      let mevs := sortEvs (r.2.1.map EvObs.ofEvent)
      let mafter? := (w'.get cur').map Obs.ofState
      let divs : List String :=
        (cmpComp "ret" toString iret r.2.2) ++ cmpEvents ievs mevs ++
        (match mafter? with
         | some mo => if stLines.isEmpty && fresh == false && (c.impl[cur']!).isNone then [] else cmpObs after mo
         | none => if stLines.isEmpty then [] else ["state | impl prints state for an empty slot"])
      let divLines := divs.map (fun d => s!"DIV {k} {cur'} {d}")
      -- monitors on the implementation's own observations
      let mon := c.mons[cur']!
      let (monLines, mon', c16, isGroup) : List String × Mon × Bool × Bool :=
        match m with
        | .create | .op _ =>
          let op : Op := match m with | .op o => o | _ => .init
          let rcd : StepRec := ⟨op, before, after, ievs, iret⟩
          let mon' := mon.step cfg op
          let textsSame := after.ps == before.ps && after.rt0 == before.rt0 && after.rt1 == before.rt1 && after.ptyn == before.ptyn
          let c16 := if textsSame && !fresh then c.c16ok[cur']! else chkC16 cfg rcd
          let res : List (String × Bool) :=
            [("C01", chkC01 mon' rcd && chkNormalScalars rcd), ("C02", chkC02 cfg mon rcd), ("C04", chkC04 mon rcd && chkC04redeliver mon rcd),
             ("C06", chkC06 cfg mon rcd), ("C07", chkC07 mon rcd && chkC07conv cfg mon rcd), ("C08", chkC08 mon rcd && chkC08cb mon rcd && chkC08first cfg mon rcd), ("CELLS", chkCells cfg mon rcd),
             ("C09", chkC09 mon' rcd), ("C10", chkC10 mon' rcd && chkNormalAf rcd && chkC10cb mon rcd), ("C11", chkC11 (tabs cfg) mon' rcd && chkNormalEcc rcd),
             ("C12", chkC12 mon rcd), ("C13", chkC13 rcd), ("C14", chkC14 rcd), ("C15", chkC15 mon rcd),
             ("C16", c16), ("C17", chkC17 mon' rcd)]
          ((res.filter (fun p => !p.2)).map (fun p => s!"MON {p.1} {k} {cur'}"), mon', c16, op.group?.isSome)
        | .destroy => ([], Mon.init, true, false)
        | _ => ([], mon, c.c16ok[cur']!, false)
      let implNow : Option Obs := match m with
        | .destroy => none
        | .mallocFail | .freeNull => c.impl[cur']!
        | _ => some after
      let evHist := ievs.foldl (fun h e => h.modify e.kind.idx (· + 1)) c.evHist
      let c' := { c with w := w', impl := c.impl.set! cur' implNow, mons := c.mons.set! cur' mon',
                         c16ok := c.c16ok.set! cur' c16,
                         nDiv := c.nDiv + divLines.length, nMon := c.nMon + monLines.length,
                         nEvents := c.nEvents + ievs.length, evHist := evHist,
                         nGroups := c.nGroups + (if isGroup then 1 else 0),
                         nStateChange := c.nStateChange + (if stLines.isEmpty then 0 else 1) }
      -- cap per property / per component
      let keyOfMon (l : String) : String := (l.splitOn " ").getD 1 ""
      let keyOfDiv (l : String) : String := (l.splitOn " ").getD 3 ""
      let pick (shownTab : List (String × Nat)) (key : String → String) (ls : List String) : List String × List (String × Nat) :=
        ls.foldl (fun (acc : List String × List (String × Nat)) l =>
          let kk := key l
          let n := (acc.2.lookup kk).getD 0
          if n < limit then (acc.1 ++ [l], (kk, n + 1) :: acc.2.filter (fun p => p.1 != kk)) else acc) ([], shownTab)
      let (dShown, dTab) := pick c.divShown keyOfDiv divLines
      let (mShown, mTab) := pick c.monShown keyOfMon monLines
      let c' := { c' with divShown := dTab, monShown := mTab }
      (c', hdr ++ evErr ++ stErr.reverse ++ xrep ++ dShown ++ mShown)

partial def chkLoop (cfg : Cfg) (ops tr : IO.FS.Stream) (out : IO.FS.Stream) (c : Chk) (la : Option String) (limit : Nat) : IO Chk := do
  match ← nextOpLine ops with
  | none =>
    -- the trace must end here too
    let (rec, _) ← readRecord tr la
    if rec.isSome then out.putStrLn s!"ERR {c.k} trace has more records than the ops file"
    return c
  | some t =>
    let (rec, la') ← readRecord tr la
    match rec with
    | none =>
      out.putStrLn s!"ERR {c.k} trace ends early (implementation aborted?)"
      return c
    | some rcd =>
      let (c', lines) := chkStep cfg c t rcd limit
      for l in lines do out.putStrLn l
      chkLoop cfg ops tr out c' la' limit

def main (args : List String) : IO UInt32 := do
  match args with
  | ["run", c, opsPath] =>
    let h ← IO.FS.Handle.mk opsPath .read
    let out ← IO.getStdout
    let d ← runLoop (cfgOf c) (IO.FS.Stream.ofHandle h) out {} "" 0
    out.putStr s!"END {d.k}\n"
    return 0
  | ["check", c, opsPath, tracePath] =>
    let ho ← IO.FS.Handle.mk opsPath .read
    let ht ← IO.FS.Handle.mk tracePath .read
    let out ← IO.getStdout
    let r ← chkLoop (cfgOf c) (IO.FS.Stream.ofHandle ho) (IO.FS.Stream.ofHandle ht) out {} none 40
    out.putStrLn s!"STAT ops={r.k} groups={r.nGroups} events={r.nEvents} statechanges={r.nStateChange} div={r.nDiv} mon={r.nMon} x={r.nX} evhist={r.evHist.toList}"
    return 0
  | ["diagnose"] =>
    -- T1: list every cell of the regenerated tables that contradicts the reference (DESIGN.md §4.1)
    let out ← IO.getStdout
    let sh (o : Option String) : String := match o with | some s => "\"" ++ s ++ "\"" | none => "NULL"
    for b in TableCheck.deviations256 TableCheck.g0OkAt do
      out.putStrLn s!"CELL C02 g0 byte={b} stored={Generated.g0Stored.getD b false} value={Generated.g0.getD b 0} expected_stored={Reference.stored b} expected={Reference.g0Value b}"
    for b in TableCheck.deviations256 TableCheck.narrowOkAt do
      out.putStrLn s!"CELL C20 narrow byte={b} stored={Generated.narrowStored.getD b false} value={Generated.narrow.getD b 0} expected_stored={Reference.stored b} expected={Reference.narrowValue b}"
    for (row, e) in TableCheck.eccDeviations TableCheck.eccOkAt do
      out.putStrLn s!"CELL C11 ecc row={row} ecc={e} value={TableCheck.eccCell row e} expected={TableCheck.eccRef row e}"
    for (row, e) in TableCheck.eccDeviations TableCheck.eccRangeOkAt do
      out.putStrLn s!"CELL C11 eccrange row={row} ecc={e} value={TableCheck.eccCell row e} expected=<{Generated.countryCount}"
    for t in [Reference.PtyTbl.name, .short, .long] do
      for rbds in [false, true] do
        for a in TableCheck.deviations256 (TableCheck.ptyOkAt t rbds) do
          out.putStrLn s!"CELL C18 pty table={repr t} rbds={rbds} arg={a} value={sh ((TableCheck.genPty t rbds).getD a none)} expected={sh (Reference.ptyExpected t rbds a)}"
        for a in TableCheck.deviations256 (TableCheck.ptyWidthOkAt t rbds) do
          out.putStrLn s!"CELL C18 ptywidth table={repr t} rbds={rbds} arg={a} value={sh ((TableCheck.genPty t rbds).getD a none)} expected=fits-display"
    for a in TableCheck.deviations256 TableCheck.nameOkAt do
      out.putStrLn s!"CELL C18 cname arg={a} value={sh (TableCheck.nameAt a)} expected={sh (Reference.expectedName a)}"
    for a in TableCheck.deviations256 TableCheck.isoOkAt do
      out.putStrLn s!"CELL C18 ciso arg={a} name={sh (TableCheck.nameAt a)} value={sh (TableCheck.isoAt a)} expected={sh (Reference.expectedIso a)}"
    for a in TableCheck.deviations256 TableCheck.isoShapeOkAt do
      out.putStrLn s!"CELL C18 cisoshape arg={a} value={sh (TableCheck.isoAt a)} expected=two-letters"
    for (i, j) in TableCheck.isoDistinctDeviations do
      out.putStrLn s!"CELL C18 cisodistinct arg={i} other={j} value={sh (TableCheck.isoAt i)} expected=distinct-countries-have-distinct-codes"
    out.putStrLn s!"CONST laneDependent={Generated.laneDependent} laneDependentNarrow={Generated.laneDependentNarrow} constsAgree={Generated.constsAgree} eccNarrowAgrees={Generated.eccCountryNarrowAgrees} lookupsNarrowAgree={Generated.lookupsNarrowAgree} capPs={Generated.capPs} capRt={Generated.capRt} capPtyn={Generated.capPtyn} afBytes={Generated.afBytes} countryCount={Generated.countryCount}"
    out.putStrLn "DIAGNOSE-END"
    return 0
  | _ =>
    IO.eprintln "usage: rdsmodel run <u|n> <ops> | rdsmodel check <u|n> <ops> <trace> | rdsmodel diagnose"
    return 2
