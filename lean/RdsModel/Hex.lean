import RdsModel.Basic
/-!
# RdsModel.Hex — `src/utils.c` (`rdsparser_utils_convert`), strict as C14 prescribes

16 or 18 bytes, every byte a hexadecimal digit, blocks big-endian, optional trailing byte
split into the four error levels. `strtol`'s leniency on the pinned tree (white space,
sign, `0x`) is deliberately not modelled: C14 itself says those inputs must be rejected.
-/
namespace RDS

def hexVal? (c : Nat) : Option Nat :=
  if 48 ≤ c && c ≤ 57 then some (c - 48)
  else if 65 ≤ c && c ≤ 70 then some (c - 55)
  else if 97 ≤ c && c ≤ 102 then some (c - 87)
  else none

/-- positional value of a list of hex digits; `none` if any byte is not a hex digit -/
def hexNum? (cs : List Nat) : Option Nat :=
  cs.foldl (fun acc c => match acc, hexVal? c with
                          | some a, some v => some (a * 16 + v)
                          | _, _ => none) (some 0)

def utilsConvert (bytes : List Nat) : Option Group :=
  if bytes.length = 16 || bytes.length = 18 then
    match hexNum? (bytes.take 4), hexNum? ((bytes.drop 4).take 4),
          hexNum? ((bytes.drop 8).take 4), hexNum? ((bytes.drop 12).take 4),
          hexNum? (bytes.drop 16) with
    | some a, some b, some c, some d, some e =>
      some ⟨a, b, c, d, e / 64 % 4, e / 16 % 4, e / 4 % 4, e % 4⟩
    | _, _, _, _, _ => none
  else none

end RDS
