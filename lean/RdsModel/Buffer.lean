import RdsModel.Basic
/-!
# RdsModel.Buffer — `src/buffer.c`, `src/af.c` and the `rdsparser_set_*` wrappers of `src/rdsparser.c`
-/
namespace RDS

/-- the seven buffered scalar fields -/
inductive Fld | pi | pty | tp | ta | ms | ecc | country
deriving DecidableEq, Repr

def Fld.cb : Fld → Cb
  | .pi => .pi | .pty => .pty | .tp => .tp | .ta => .ta | .ms => .ms | .ecc => .ecc | .country => .country

def Fld.ev : Fld → EvKind
  | .pi => .pi | .pty => .pty | .tp => .tp | .ta => .ta | .ms => .ms | .ecc => .ecc | .country => .country

/-- the "unknown" value of each field -/
def Fld.unknown : Fld → Int
  | .country => 0 | _ => -1

def Scalars.get (x : Scalars) : Fld → Int
  | .pi => x.pi | .pty => x.pty | .tp => x.tp | .ta => x.ta | .ms => x.ms | .ecc => x.ecc
  | .country => x.country

def Scalars.put (x : Scalars) (f : Fld) (v : Int) : Scalars :=
  match f with
  | .pi => { x with pi := v } | .pty => { x with pty := v } | .tp => { x with tp := v }
  | .ta => { x with ta := v } | .ms => { x with ms := v } | .ecc => { x with ecc := v }
  | .country => { x with country := v }

/-- `RDSPARSER_BUFFER_UPDATE` (`buffer.c:22-30`): returns (used', temp', changed). -/
def bufUpdate (ext : Bool) (used temp v : Int) : Int × Int × Bool :=
  if used = v || (ext && temp != v) then (used, v, false) else (v, temp, true)

/-- `rdsparser_set_<field>` (`rdsparser.c:144-275`): update the buffer first, call back only
if the update reported a change and a callback is registered. -/
def setField (s : State) (f : Fld) (v : Int) : State × List Event :=
  let r := bufUpdate s.set.ext (s.used.get f) (s.temp.get f) v
  let s' := { s with used := s.used.put f r.1, temp := s.temp.put f r.2.1 }
  (s', if r.2.2 then emit s' f.cb f.ev else [])

/-- `af.c`: only codes 1..204 are representable. -/
def afValid (v : Nat) : Bool := 1 ≤ v && v ≤ 204

/-- `rdsparser_af_get` -/
def afGet (af : List Bool) (v : Nat) : Bool := afValid v && af.getD v false

/-- `rdsparser_af_set`: (new bitmap, accepted) -/
def afSet (af : List Bool) (v : Nat) : List Bool × Bool :=
  if afValid v then (af.set v true, true) else (af, false)

/-- `rdsparser_add_af` + `rdsparser_buffer_add_af` (`rdsparser.c:277-289`, `buffer.c:164-181`). -/
def addAf (s : State) (v : Nat) : State × List Event :=
  if afGet s.used.af v then (s, [])
  else if s.set.ext && !afGet s.temp.af v then
    ({ s with temp := { s.temp with af := (afSet s.temp.af v).1 } }, [])
  else
    let r := afSet s.used.af v
    let s' := { s with used := { s.used with af := r.1 } }
    (s', if r.2 then emit s' .af (.af (87500 + v * 100)) else [])

end RDS
