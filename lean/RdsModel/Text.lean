import RdsModel.Basic
/-!
# RdsModel.Text — `src/string.c` and `rdsparser_parser_update_string` of `src/parser.c`
-/
namespace RDS

/-- `rdsparser_string_calculate_error` -/
def calcError (ei ed : Nat) : Nat := if 2 * ei + 3 * ed = 0 then 0 else 2 * ei + 3 * ed - 1

/-- `rdsparser_string_convert` preceded by the narrow build's `input = ' '` for codes ≥ 0x7F
(`string.c:104-152,194-196`). -/
def conv (cfg : Cfg) (b : Nat) : Nat :=
  if b = 0x0D then 0
  else if cfg.unicode then (if b < 0x20 then 0x20 else cfg.g0 b)
  else (if 0x7F ≤ b then 0x20 else b)

inductive Store | oob | rejected | stored
deriving DecidableEq, Repr

/-- `rdsparser_string_update_single` (`allow_eol` is always `true` in the library). The
`oob` outcome stands for an out-of-range index (undefined behaviour in C); it is proved
unreachable from `process` (C05). -/
def updateSingle (cfg : Cfg) (t : Text) (b ei ed pos : Nat) (prog : Bool) : Text × Store :=
  let err := calcError ei ed
  match t[pos]? with
  | none => (t, .oob)
  | some cell =>
    if prog && cell.lvl < err then (t, .rejected)
    else if b = 0x0D && (ei != 0 || ed != 0) then (t, .rejected)
    else if b != 0x0D && b < 0x20 then (t, .rejected)
    else if 0x7F ≤ b && (ei != 0 || ed != 0) then (t, .rejected)
    else if cell.ch = conv cfg b && cell.lvl ≤ err then (t, .rejected)
    else (t.set pos ⟨conv cfg b, err⟩, .stored)

/-- `rdsparser_string_update`: the two bytes of a 16-bit block -/
def updateString (cfg : Cfg) (t : Text) (w ei ed pos : Nat) (prog : Bool) : Text × Bool :=
  let r1 := updateSingle cfg t (w / 256 % 256) ei ed pos prog
  let r2 := updateSingle cfg r1.1 (w % 256) ei ed (pos + 1) prog
  (r2.1, r1.2 == .stored || r2.2 == .stored)

/-- `rdsparser_string_get_available` -/
def getAvailable (t : Text) : Bool := t.any (fun c => c.lvl != 10)

/-- `rdsparser_string_get_length` -/
def getLength (t : Text) : Nat := (t.findIdx? (fun c => c.ch == 0)).getD t.length

/-- `rdsparser_parser_update_string` (`parser.c:74-101`): the threshold gate. -/
def parserUpdate (cfg : Cfg) (set : Settings) (t : Text) (id : TextId) (w eb ex pos : Nat) :
    Text × Bool :=
  if eb ≤ set.corr id .info && ex ≤ set.corr id .data then
    updateString cfg t w eb ex pos (set.prog id)
  else (t, false)

end RDS
