import RdsModel.Groups
import RdsModel.Hex
/-!
# RdsModel.Step — the public API of `src/rdsparser.c` as one step function
-/
namespace RDS

inductive Op
  | init | clear
  | parse (g : Group)
  /-- `none` = NULL pointer; `some bytes` = a C string with those bytes (each 1..255) -/
  | parseString (s : Option (List Nat))
  | setExt (v : Bool)
  | setCorr (t : TextId) (k : BlockType) (v : Nat)
  | setProg (t : TextId) (v : Bool)
  | register (c : Cb) (on : Bool)
  | userData (n : Nat)
  /-- any number of getter calls -/
  | getters
deriving DecidableEq, Repr

def Settings.init : Settings := ⟨false, false, false, false, 0, 0, 0, 0, 0, 0⟩

/-- the state after `rdsparser_init` (`memset` + `buffer_init` + `string_init`×4 + `clear`) -/
def initState : State :=
  { used := .cleared, temp := .cleared, set := .init,
    ps := List.replicate capPs blank, rt0 := List.replicate capRt blank,
    rt1 := List.replicate capRt blank, ptyn := List.replicate capPtyn blank,
    termPs := 0, termRt0 := 0, termRt1 := 0, termPtyn := 0,
    lastRt := -1, cbs := List.replicate 12 false, ud := 0 }

/-- `rdsparser_clear` -/
def clearState (s : State) : State :=
  { s with used := .cleared, temp := .cleared, ps := s.ps.cleared, rt0 := s.rt0.cleared,
           rt1 := s.rt1.cleared, ptyn := s.ptyn.cleared, lastRt := -1 }

/-- `rdsparser_set_text_correction`: clamp to `RDSPARSER_BLOCK_ERROR_UNCORRECTABLE - 1` -/
def Settings.setCorr (s : Settings) (t : TextId) (k : BlockType) (v : Nat) : Settings :=
  let v := min v 2
  match t, k with
  | .ps, .info => { s with psInfo := v } | .ps, .data => { s with psData := v }
  | .rt, .info => { s with rtInfo := v } | .rt, .data => { s with rtData := v }
  | .ptyn, .info => { s with ptynInfo := v } | .ptyn, .data => { s with ptynData := v }

def Settings.setProg (s : Settings) (t : TextId) (v : Bool) : Settings :=
  match t with
  | .ps => { s with progPs := v } | .rt => { s with progRt := v } | .ptyn => { s with progPtyn := v }

/-- One API call: new state, callbacks invoked (in order), boolean result (only
`parse_string` has one; `true` elsewhere). -/
def step (cfg : Cfg) (s : State) : Op → State × List Event × Bool
  | .init => (initState, [], true)
  | .clear => (clearState s, [], true)
  | .parse g => let r := process cfg s g; (r.1, r.2, true)
  | .parseString none => (s, [], false)
  | .parseString (some bytes) =>
    match utilsConvert bytes with
    | some g => let r := process cfg s g; (r.1, r.2, true)
    | none => (s, [], false)
  | .setExt v => ({ s with set := { s.set with ext := v } }, [], true)
  | .setCorr t k v => ({ s with set := s.set.setCorr t k v }, [], true)
  | .setProg t v => ({ s with set := s.set.setProg t v }, [], true)
  | .register c on => ({ s with cbs := s.cbs.set c.idx on }, [], true)
  | .userData n => ({ s with ud := n }, [], true)
  | .getters => (s, [], true)

/-- the state after an op list, starting from `s` -/
def runFrom (cfg : Cfg) (s : State) (ops : List Op) : State :=
  ops.foldl (fun s op => (step cfg s op).1) s

/-- the state after an op list on a freshly initialised parser -/
def run (cfg : Cfg) (ops : List Op) : State := runFrom cfg initState ops

/-- The trace of an op list: state after each op, events, result. -/
def trace (cfg : Cfg) : State → List Op → List (State × List Event × Bool)
  | _, [] => []
  | s, op :: ops => let r := step cfg s op; r :: trace cfg r.1 ops

end RDS
