/-!
# RdsModel.Basic — data types of the executable model of kkonradpl/librdsparser

Core Lean only (no Mathlib): the same definitions are compiled into the native driver
`rdsmodel` that is run against the real library, and are the subject of the theorems in
`RdsProps/`.

C source modelled: `include/librdsparser.h`, `include/librdsparser_private.h`.
-/
namespace RDS

/-- Compile-time configuration plus the constant tables the control logic consults.
The tables are *parameters*: every logic theorem is proved for arbitrary tables, the
driver instantiates them with `Generated.*` (read out of the compiled library on every run),
and the table theorems (C02 charset, C11, C18) are about `Generated.*` directly. -/
structure Cfg where
  /-- `false` = built with `RDSPARSER_DISABLE_UNICODE` -/
  unicode : Bool
  /-- `string.c` charset table: byte (0x20..0xFF) ↦ code point (unicode build only) -/
  g0 : Nat → Nat
  /-- `ecc.c` lookup: PI country nibble (1..15) → ECC byte → country enumerator -/
  ecc : Nat → Nat → Nat

/-- text capacities (`RDSPARSER_PS_LENGTH`, `RDSPARSER_RT_LENGTH`, `RDSPARSER_PTYN_LENGTH`);
checked against the compiled headers by `Generated.cap*` (theorem `caps_match`). -/
def capPs : Nat := 8
def capRt : Nat := 64
def capPtyn : Nat := 8
/-- number of AF bitmap bits (`RDSPARSER_AF_BUFFER_SIZE * 8`) -/
def afBits : Nat := 208

/-- one character cell: code point and per-character error level (0..9, 10 = never received) -/
structure Cell where
  ch : Nat
  lvl : Nat
deriving DecidableEq, Repr, Inhabited

abbrev Text := List Cell

/-- a never-received cell: space at level `RDSPARSER_STRING_ERROR_UNCORRECTABLE` -/
def blank : Cell := ⟨0x20, 10⟩

/-- `rdsparser_string_clear` -/
def Text.cleared (t : Text) : Text := t.map (fun _ => blank)

inductive TextId | ps | rt | ptyn
deriving DecidableEq, Repr

inductive BlockType | info | data
deriving DecidableEq, Repr

/-- the ten settings (`buffer.extended_check`, `progressive[3]`, `correction[3][2]`) -/
structure Settings where
  ext : Bool
  progPs : Bool
  progRt : Bool
  progPtyn : Bool
  psInfo : Nat
  psData : Nat
  rtInfo : Nat
  rtData : Nat
  ptynInfo : Nat
  ptynData : Nat
deriving DecidableEq, Repr

def Settings.prog (s : Settings) : TextId → Bool
  | .ps => s.progPs | .rt => s.progRt | .ptyn => s.progPtyn

def Settings.corr (s : Settings) : TextId → BlockType → Nat
  | .ps, .info => s.psInfo | .ps, .data => s.psData
  | .rt, .info => s.rtInfo | .rt, .data => s.rtData
  | .ptyn, .info => s.ptynInfo | .ptyn, .data => s.ptynData

/-- `rdsparser_buffer_data_t` -/
structure Scalars where
  pi : Int
  pty : Int
  tp : Int
  ta : Int
  ms : Int
  ecc : Int
  country : Int
  /-- indexed by AF code; length `afBits` -/
  af : List Bool
deriving DecidableEq, Repr

/-- `rdsparser_buffer_data_clear` -/
def Scalars.cleared : Scalars := ⟨-1, -1, -1, -1, -1, -1, 0, List.replicate afBits false⟩

/-- one RDS group: four 16-bit blocks and four 8-bit error codes -/
structure Group where
  a : Nat
  b : Nat
  c : Nat
  d : Nat
  ea : Nat
  eb : Nat
  ec : Nat
  ed : Nat
deriving DecidableEq, Repr

/-- the twelve callbacks -/
inductive Cb | pi | pty | tp | ta | ms | ecc | country | af | ps | rt | ptyn | ct
deriving DecidableEq, Repr

def Cb.idx : Cb → Nat
  | .pi => 0 | .pty => 1 | .tp => 2 | .ta => 3 | .ms => 4 | .ecc => 5 | .country => 6
  | .af => 7 | .ps => 8 | .rt => 9 | .ptyn => 10 | .ct => 11

/-- `rdsparser_ct_t` as seen through the `rdsparser_ct_get_*` getters -/
structure CtVal where
  year : Int
  month : Int
  day : Int
  hour : Int
  minute : Int
  offsetMin : Int
deriving DecidableEq, Repr

inductive EvKind
  | pi | pty | tp | ta | ms | ecc | country
  | af (khz : Nat) | ps | rt (flag : Nat) | ptyn | ct (v : CtVal)
deriving DecidableEq, Repr

def EvKind.cb : EvKind → Cb
  | .pi => .pi | .pty => .pty | .tp => .tp | .ta => .ta | .ms => .ms | .ecc => .ecc
  | .country => .country | .af _ => .af | .ps => .ps | .rt _ => .rt | .ptyn => .ptyn | .ct _ => .ct

/-- `struct librdsparser` -/
structure State where
  used : Scalars
  temp : Scalars
  set : Settings
  ps : Text
  rt0 : Text
  rt1 : Text
  ptyn : Text
  /-- the terminator slot after each text's content (written by `memset` only) -/
  termPs : Nat
  termRt0 : Nat
  termRt1 : Nat
  termPtyn : Nat
  lastRt : Int
  /-- which callbacks are registered (length 12, indexed by `Cb.idx`) -/
  cbs : List Bool
  /-- the user-data cookie -/
  ud : Nat
deriving DecidableEq, Repr

/-- An invoked callback: which one, the user data passed, and the state the getters show
inside it. -/
structure Event where
  kind : EvKind
  ud : Nat
  snap : State
deriving DecidableEq, Repr

def State.registered (s : State) (c : Cb) : Bool := s.cbs.getD c.idx false

def emit (s : State) (c : Cb) (k : EvKind) : List Event :=
  if s.registered c then [⟨k, s.ud, s⟩] else []

def State.rt (s : State) (flag : Nat) : Text := if flag = 0 then s.rt0 else s.rt1

def State.setRt (s : State) (flag : Nat) (t : Text) : State :=
  if flag = 0 then { s with rt0 := t } else { s with rt1 := t }

end RDS
