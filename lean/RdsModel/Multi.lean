import RdsModel.Step
/-!
# RdsModel.Multi — several parser instances (C19)

The library keeps no state outside `struct librdsparser`, so the multi-instance model is
simply a finite map from slot numbers to independent `State`s.
-/
namespace RDS

/-- operations of the multi-instance harness vocabulary -/
inductive MOp
  | select (i : Nat)
  /-- `rdsparser_new` (or `rdsparser_init` on caller storage): the slot holds a fresh parser -/
  | create
  /-- `rdsparser_free` (or release of caller storage): the slot becomes empty -/
  | destroy
  /-- allocation failure in `rdsparser_new`: returns NULL, touches nothing -/
  | mallocFail
  /-- `rdsparser_free(NULL)` -/
  | freeNull
  | op (o : Op)
deriving DecidableEq, Repr

structure World where
  cur : Nat
  slots : List (Option State)
deriving DecidableEq, Repr

def numSlots : Nat := 8

def World.init : World := ⟨0, List.replicate numSlots none⟩

def World.get (w : World) (i : Nat) : Option State := (w.slots.getD i none)

/-- one harness operation: new world, events and result of the call on the current slot -/
def mstep (cfg : Cfg) (w : World) : MOp → World × List Event × Bool
  | .select i => ({ w with cur := i % numSlots }, [], true)
  | .create => ({ w with slots := w.slots.set w.cur (some initState) }, [], true)
  | .destroy => ({ w with slots := w.slots.set w.cur none }, [], true)
  | .mallocFail => (w, [], true)
  | .freeNull => (w, [], true)
  | .op o =>
    match w.get w.cur with
    | none => (w, [], true)
    | some s =>
      let r := step cfg s o
      ({ w with slots := w.slots.set w.cur (some r.1) }, r.2.1, r.2.2)

end RDS
