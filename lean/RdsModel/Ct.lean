import RdsModel.Basic
/-!
# RdsModel.Ct — `src/ct.c` (`rdsparser_ct_init`) with an exact proleptic-Gregorian date

Time-of-day arithmetic follows `ct.c` line by line (C's truncating `/` and `%` on the signed
half-hour offset are `Int.tdiv`/`Int.tmod`). The date is the exact civil date of the day
number; see DESIGN.md §3.2 for why the pinned tree's approximate formula is not modelled.
-/
namespace RDS

/-- civil date from days since 0000-03-01 (era/day-of-era algorithm); `z ≥ 0` on the input domain -/
def civilFromDays (z : Int) : Int × Int × Int :=
  let era := z / 146097
  let doe := z % 146097
  let yoe := (doe - doe / 1460 + doe / 36524 - doe / 146096) / 365
  let doy := doe - (365 * yoe + yoe / 4 - yoe / 100)
  let mp := (5 * doy + 2) / 153
  let d := doy - (153 * mp + 2) / 5 + 1
  let m := if mp < 10 then mp + 3 else mp - 9
  (if m ≤ 2 then yoe + era * 400 + 1 else yoe + era * 400, m, d)

/-- `rdsparser_ct_init`; `none` = rejected (hour ≥ 24 or minute ≥ 60). `off` is the signed
number of half hours. -/
def ctInit (mjd hour minute : Nat) (off : Int) : Option CtVal :=
  if 24 ≤ hour || 60 ≤ minute then none else
  let m0 : Int := minute + (Int.tmod off 2) * 30
  let h0 : Int := if 60 ≤ m0 then hour + 1 else if m0 < 0 then (hour : Int) - 1 else hour
  let m1 : Int := if 60 ≤ m0 then m0 - 60 else if m0 < 0 then 60 + m0 else m0
  let h1 : Int := h0 + Int.tdiv off 2
  let day : Int := if 24 ≤ h1 then (mjd : Int) + 1 else if h1 < 0 then (mjd : Int) - 1 else mjd
  let h2 : Int := if 24 ≤ h1 then h1 - 24 else if h1 < 0 then 24 + h1 else h1
  let ymd := civilFromDays (day + 678881)
  some ⟨ymd.1, ymd.2.1, ymd.2.2, h2, m1, off * 30⟩

end RDS
