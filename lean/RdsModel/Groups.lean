import RdsModel.Buffer
import RdsModel.Text
import RdsModel.Ct
/-!
# RdsModel.Groups — `src/group.c`, `group0.c`, `group1.c`, `group2.c`, `group4.c`,
`group10.c`, and `rdsparser_parser_process` of `src/parser.c`

Bit fields are written with `/` and `%` so that `omega` decides the arithmetic side
conditions; that they equal the C mask/shift expressions on all 65 536 values is checked
by the correspondence sweeps.
-/
namespace RDS

def Group.type (g : Group) : Nat := g.b / 4096 % 16
def Group.versionB (g : Group) : Bool := g.b / 2048 % 2 = 1

/-- `rdsparser_group_parse` (`group.c:42-56`) -/
def groupCommon (s : State) (g : Group) : State × List Event :=
  let r1 := if g.ea = 0 then setField s .pi g.a else (s, [])
  if g.eb = 0 then
    let r2 := setField r1.1 .pty (g.b / 32 % 32 : Nat)
    let r3 := setField r2.1 .tp (g.b / 1024 % 2 : Nat)
    (r3.1, r1.2 ++ r2.2 ++ r3.2)
  else r1

/-- `rdsparser_group0_parse` (`group0.c`) -/
def group0 (cfg : Cfg) (s : State) (g : Group) : State × List Event :=
  let r1 := if g.eb = 0 then
      let a := setField s .ta (g.b / 16 % 2 : Nat)
      let b := setField a.1 .ms (g.b / 8 % 2 : Nat)
      (b.1, a.2 ++ b.2)
    else (s, [])
  let u := parserUpdate cfg r1.1.set r1.1.ps .ps g.d g.eb g.ed (2 * (g.b % 4))
  let s2 := { r1.1 with ps := u.1 }
  let e2 := if u.2 then emit s2 .ps .ps else []
  if !g.versionB && g.eb = 0 && g.ec = 0 && g.c / 256 % 256 != 250 then
    let a1 := addAf s2 (g.c / 256 % 256)
    let a2 := addAf a1.1 (g.c % 256)
    (a2.1, r1.2 ++ e2 ++ a1.2 ++ a2.2)
  else (s2, r1.2 ++ e2)

/-- `rdsparser_ecc_lookup` wrapper: unknown PI or nibble 0 → unknown country (0) -/
def eccLookup (cfg : Cfg) (pi ecc : Int) : Int :=
  if pi = -1 then 0 else
  let nib := pi.toNat / 4096 % 16
  if nib = 0 then 0 else (cfg.ecc nib ecc.toNat : Nat)

/-- `rdsparser_group1_parse` (`group1.c`) -/
def group1 (cfg : Cfg) (s : State) (g : Group) : State × List Event :=
  if !g.versionB && g.eb = 0 && g.ec = 0 && g.c / 4096 % 8 = 0 then
    let r1 := setField s .ecc (g.c % 256 : Nat)
    let r2 := setField r1.1 .country (eccLookup cfg r1.1.used.pi (g.c % 256 : Nat))
    (r2.1, r1.2 ++ r2.2)
  else (s, [])

/-- `rdsparser_group2_parse` (`group2.c`) -/
def group2 (cfg : Cfg) (s : State) (g : Group) : State × List Event :=
  let flag := g.b / 16 % 2
  let pos := g.b % 16
  -- toggle detection (group2.c:43-54)
  let sw := g.eb = 0 && ((flag : Int) != s.lastRt)
  let clr := sw && s.lastRt != -1 && getAvailable (s.rt flag)
  let s1 := if clr then s.setRt flag (s.rt flag).cleared else s
  let s2 := if sw then { s1 with lastRt := flag } else s1
  -- bit-flip guard (group2.c:56-63)
  if g.eb != 0 && (flag : Int) != s2.lastRt && s2.lastRt != -1 then (s2, [])
  else
    let u1 := if !g.versionB
      then parserUpdate cfg s2.set (s2.rt flag) .rt g.c g.eb g.ec (4 * pos)
      else (s2.rt flag, false)
    let pos2 := if !g.versionB then 4 * pos + 2 else 2 * pos
    let u2 := parserUpdate cfg s2.set u1.1 .rt g.d g.eb g.ed pos2
    let s3 := s2.setRt flag u2.1
    (s3, if clr || u1.2 || u2.2 then emit s3 .rt (.rt flag) else [])

/-- the clock-time fields of a 4A group: (mjd, hour, minute, signed half-hour offset) -/
def ctFields (g : Group) : Nat × Nat × Nat × Int :=
  let mag : Int := (g.d % 32 : Nat)
  ((g.b % 4) * 32768 + g.c / 2, (g.c % 2) * 16 + g.d / 4096 % 16, g.d / 64 % 64,
   if g.d / 32 % 2 = 1 then -mag else mag)

/-- `rdsparser_group4_parse` (`group4.c`) -/
def group4 (s : State) (g : Group) : State × List Event :=
  if !g.versionB && g.eb = 0 && g.ec = 0 && g.ed = 0 && s.registered .ct then
    let f := ctFields g
    match ctInit f.1 f.2.1 f.2.2.1 f.2.2.2 with
    | some v => (s, emit s .ct (.ct v))
    | none => (s, [])
  else (s, [])

/-- `rdsparser_group10_parse` (`group10.c`) -/
def group10 (cfg : Cfg) (s : State) (g : Group) : State × List Event :=
  if !g.versionB then
    let pos := 4 * (g.b % 2)
    let u1 := parserUpdate cfg s.set s.ptyn .ptyn g.c g.eb g.ec pos
    let u2 := parserUpdate cfg s.set u1.1 .ptyn g.d g.eb g.ed (pos + 2)
    let s' := { s with ptyn := u2.1 }
    (s', if u1.2 || u2.2 then emit s' .ptyn .ptyn else [])
  else (s, [])

/-- the type dispatch of `rdsparser_parser_process` -/
def dispatch (cfg : Cfg) (s : State) (g : Group) : State × List Event :=
  if g.type = 0 then group0 cfg s g
  else if g.type = 1 then group1 cfg s g
  else if g.type = 2 then group2 cfg s g
  else if g.type = 4 then group4 s g
  else if g.type = 10 then group10 cfg s g
  else (s, [])

/-- `rdsparser_parser_process` (`parser.c:36-72`) -/
def process (cfg : Cfg) (s : State) (g : Group) : State × List Event :=
  let r1 := groupCommon s g
  let r2 := dispatch cfg r1.1 g
  (r2.1, r1.2 ++ r2.2)

end RDS
