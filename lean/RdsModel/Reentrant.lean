import RdsModel.Multi
/-!
# RdsModel.Reentrant — nested-call semantics: callbacks that call the API themselves

`RdsModel.Groups` records the invoked callbacks as a list of events and treats them as
observers. In C a callback receives the parser handle and may call any API function
(`rdsparser_clear`, `rdsparser_register_*`, `rdsparser_set_user_data`, …) before it returns;
the decoder then continues on whatever the callback left behind, with its own locals (the
decoded bit fields, the `changed` flags) unchanged.

Here every function of `Groups`/`Buffer` that can invoke a callback is written a second time
with a *handler* `h : Event → State → State` threaded through it in the order in which the C
code invokes the callbacks: the state after an invoked callback is `h ev s`. Everything that the
C code reads again from `*rds` after a callback returned (the buffered scalars for the next
`rdsparser_set_*`, `rdsparser_get_pi` for the country look-up, the text buffers, the
registration table and the user data for the next callback) is read from the handler's result;
everything held in locals is not.

`RdsProofs/Reentrant.lean` proves that with the handler that does nothing this is exactly
`process`/`step`/`mstep` (so all property theorems are about the `h = noop` instance of this
model), and that a handler which only touches registrations and user data cannot influence
what is decoded. The driver runs `mstepH` for the harness's `ri` modes (a callback that
resets, unregisters, registers or changes the user data from inside the call).
-/
namespace RDS

/-- what an invoked callback does: the state it leaves behind and the callbacks invoked by the API calls it made -/
abbrev Handler := Event → State → State × List Event

def Handler.noop : Handler := fun _ s => (s, [])

/-- invoke callback `c` (if registered) and continue on what it left behind -/
def emitH (h : Handler) (s : State) (c : Cb) (k : EvKind) : State × List Event :=
  if s.registered c then
    let r := h ⟨k, s.ud, s⟩ s
    (r.1, ⟨k, s.ud, s⟩ :: r.2)
  else (s, [])

/-- `rdsparser_set_<field>` -/
def setFieldH (h : Handler) (s : State) (f : Fld) (v : Int) : State × List Event :=
  let r := bufUpdate s.set.ext (s.used.get f) (s.temp.get f) v
  let s' := { s with used := s.used.put f r.1, temp := s.temp.put f r.2.1 }
  if r.2.2 then emitH h s' f.cb f.ev else (s', [])

/-- `rdsparser_add_af` -/
def addAfH (h : Handler) (s : State) (v : Nat) : State × List Event :=
  if afGet s.used.af v then (s, [])
  else if s.set.ext && !afGet s.temp.af v then
    ({ s with temp := { s.temp with af := (afSet s.temp.af v).1 } }, [])
  else
    let r := afSet s.used.af v
    let s' := { s with used := { s.used with af := r.1 } }
    if r.2 then emitH h s' .af (.af (87500 + v * 100)) else (s', [])

/-- `rdsparser_group_parse` -/
def groupCommonH (h : Handler) (s : State) (g : Group) : State × List Event :=
  let r1 := if g.ea = 0 then setFieldH h s .pi g.a else (s, [])
  if g.eb = 0 then
    let r2 := setFieldH h r1.1 .pty (g.b / 32 % 32 : Nat)
    let r3 := setFieldH h r2.1 .tp (g.b / 1024 % 2 : Nat)
    (r3.1, r1.2 ++ r2.2 ++ r3.2)
  else r1

/-- `rdsparser_group0_parse`: `rds->ps` and the settings are read after the TA/MS callbacks -/
def group0H (cfg : Cfg) (h : Handler) (s : State) (g : Group) : State × List Event :=
  let r1 := if g.eb = 0 then
      let a := setFieldH h s .ta (g.b / 16 % 2 : Nat)
      let b := setFieldH h a.1 .ms (g.b / 8 % 2 : Nat)
      (b.1, a.2 ++ b.2)
    else (s, [])
  let u := parserUpdate cfg r1.1.set r1.1.ps .ps g.d g.eb g.ed (2 * (g.b % 4))
  let s2 := { r1.1 with ps := u.1 }
  let e2 := if u.2 then emitH h s2 .ps .ps else (s2, [])
  if !g.versionB && g.eb = 0 && g.ec = 0 && g.c / 256 % 256 != 250 then
    let a1 := addAfH h e2.1 (g.c / 256 % 256)
    let a2 := addAfH h a1.1 (g.c % 256)
    (a2.1, r1.2 ++ e2.2 ++ a1.2 ++ a2.2)
  else (e2.1, r1.2 ++ e2.2)

/-- `rdsparser_group1_parse`: `rdsparser_get_pi(rds)` is evaluated after the ECC callback -/
def group1H (cfg : Cfg) (h : Handler) (s : State) (g : Group) : State × List Event :=
  if !g.versionB && g.eb = 0 && g.ec = 0 && g.c / 4096 % 8 = 0 then
    let r1 := setFieldH h s .ecc (g.c % 256 : Nat)
    let r2 := setFieldH h r1.1 .country (eccLookup cfg r1.1.used.pi (g.c % 256 : Nat))
    (r2.1, r1.2 ++ r2.2)
  else (s, [])

/-- `rdsparser_group2_parse`: the RT callback is its last action -/
def group2H (cfg : Cfg) (h : Handler) (s : State) (g : Group) : State × List Event :=
  let flag := g.b / 16 % 2
  let pos := g.b % 16
  let sw := g.eb = 0 && ((flag : Int) != s.lastRt)
  let clr := sw && s.lastRt != -1 && getAvailable (s.rt flag)
  let s1 := if clr then s.setRt flag (s.rt flag).cleared else s
  let s2 := if sw then { s1 with lastRt := flag } else s1
  if g.eb != 0 && (flag : Int) != s2.lastRt && s2.lastRt != -1 then (s2, [])
  else
    let u1 := if !g.versionB
      then parserUpdate cfg s2.set (s2.rt flag) .rt g.c g.eb g.ec (4 * pos)
      else (s2.rt flag, false)
    let pos2 := if !g.versionB then 4 * pos + 2 else 2 * pos
    let u2 := parserUpdate cfg s2.set u1.1 .rt g.d g.eb g.ed pos2
    let s3 := s2.setRt flag u2.1
    if clr || u1.2 || u2.2 then emitH h s3 .rt (.rt flag) else (s3, [])

/-- `rdsparser_group4_parse` -/
def group4H (h : Handler) (s : State) (g : Group) : State × List Event :=
  if !g.versionB && g.eb = 0 && g.ec = 0 && g.ed = 0 && s.registered .ct then
    let f := ctFields g
    match ctInit f.1 f.2.1 f.2.2.1 f.2.2.2 with
    | some v => emitH h s .ct (.ct v)
    | none => (s, [])
  else (s, [])

/-- `rdsparser_group10_parse` -/
def group10H (cfg : Cfg) (h : Handler) (s : State) (g : Group) : State × List Event :=
  if !g.versionB then
    let pos := 4 * (g.b % 2)
    let u1 := parserUpdate cfg s.set s.ptyn .ptyn g.c g.eb g.ec pos
    let u2 := parserUpdate cfg s.set u1.1 .ptyn g.d g.eb g.ed (pos + 2)
    let s' := { s with ptyn := u2.1 }
    if u1.2 || u2.2 then emitH h s' .ptyn .ptyn else (s', [])
  else (s, [])

def dispatchH (cfg : Cfg) (h : Handler) (s : State) (g : Group) : State × List Event :=
  if g.type = 0 then group0H cfg h s g
  else if g.type = 1 then group1H cfg h s g
  else if g.type = 2 then group2H cfg h s g
  else if g.type = 4 then group4H h s g
  else if g.type = 10 then group10H cfg h s g
  else (s, [])

/-- `rdsparser_parser_process` with re-entrant callbacks -/
def processH (cfg : Cfg) (h : Handler) (s : State) (g : Group) : State × List Event :=
  let r1 := groupCommonH h s g
  let r2 := dispatchH cfg h r1.1 g
  (r2.1, r1.2 ++ r2.2)

/-- one API call made from outside a callback, with handler `h` acting inside the callbacks -/
def stepH (cfg : Cfg) (h : Handler) (s : State) : Op → State × List Event × Bool
  | .parse g => let r := processH cfg h s g; (r.1, r.2, true)
  | .parseString (some bytes) =>
    match utilsConvert bytes with
    | some g => let r := processH cfg h s g; (r.1, r.2, true)
    | none => (s, [], false)
  | op => step cfg s op

def mstepH (cfg : Cfg) (h : Handler) (w : World) : MOp → World × List Event × Bool
  | .op o =>
    match w.get w.cur with
    | none => (w, [], true)
    | some s =>
      let r := stepH cfg h s o
      ({ w with slots := w.slots.set w.cur (some r.1) }, r.2.1, r.2.2)
  | m => mstep cfg w m

/-! ## the handlers of the harness's `ri` modes (`harness.c`, `new_event`) -/

def Event.cbIdx (e : Event) : Nat := e.kind.cb.idx

/-- the group parsed from inside a callback in the `ri 7000+j` modes (`harness.c`, `nested_parse`): an error-free 0A group
with PI 0x5A5A, PTY 9, TP 1, TA 1, PS segment 1 = "Zz", AF codes 45 and 55 -/
def nestedGroup : Group := ⟨0x5A5A, 0x0531, 0x2D37, 0x5A7A, 0, 0, 0, 0⟩

/-- `ri 7000+j`: callback `j` calls `rdsparser_parse` with `nestedGroup` on the same parser (the callbacks invoked by that
nested call do not act themselves);
`ri 5000+j`: callback `j` calls `rdsparser_clear`;
`ri 3000+100j+4k`: callback `j` registers callback `k`;
`ri 1000+100j+4k+bits`: callback `j` unregisters callback `k` (bit 0) and/or sets the user data
to `0x7000+16j+k` (bit 1). Other modes are not modelled (`none`). -/
def handlerOfMode (cfg : Cfg) (m : Nat) : Option Handler :=
  if m = 0 then some Handler.noop
  else if 7000 ≤ m then some fun e s => if e.cbIdx = m - 7000 then process cfg s nestedGroup else (s, [])
  else if 5000 ≤ m then some fun e s => (if e.cbIdx = m - 5000 then clearState s else s, [])
  else if 3000 ≤ m then
    let j := (m - 3000) / 100
    let k := (m - 3000) % 100 / 4
    some fun e s => (if e.cbIdx = j then { s with cbs := s.cbs.set (k % 12) true } else s, [])
  else if 1000 ≤ m then
    let j := (m - 1000) / 100
    let k := (m - 1000) % 100 / 4
    some fun e s =>
      (if e.cbIdx = j then
        let s1 := if m % 2 = 1 then { s with cbs := s.cbs.set (k % 12) false } else s
        if m / 2 % 2 = 1 then { s1 with ud := 0x7000 + 16 * j + k } else s1
      else s, [])
  else none

end RDS
