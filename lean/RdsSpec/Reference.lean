/-!
# RdsSpec.Reference — hand-written ORACLE tables (never regenerated)

Everything in this file was written by hand from the standards, *not* copied from
`RdsModel/Generated.lean` (which is regenerated from the compiled library on every run) and
not mechanically derived from `/repo/src`:

* `g0`          — IEC 62106 (EN 50067) Annex E, code table E.1: the "complete EBU Latin based
                  repertoire" (RDS basic character set G0), bytes 0x20..0xFF, as Unicode code points.
* `countries`   — the entities of the library's `rdsparser_country` enumeration (enumerator
                  order and the library's spellings of the names are the only things taken from
                  `/repo/include/librdsparser.h`), each with its ISO 3166-1 alpha-2 code as
                  assigned by ISO 3166/MA ("XK": user-assigned code in general use for Kosovo;
                  "--": not a single ISO 3166-1 country).
* `iecColumns`  — IEC 62106-4:2018 (Annex D / Annex N of EN 50067:1998, IEC 62106:2009/2015),
                  country/area identification: for every extended country code the area that owns
                  each PI country nibble 1..F.
* `pty…`        — programme type names, IEC 62106 Annex F (RDS) and NRSC-4 Annex F (RBDS),
                  with the 8- and 16-character display forms.

Core Lean only; no imports, so nothing in here can depend on the library under test.
-/
namespace RDS.Reference

/-! ## C02 — RDS basic character set (G0), bytes 0x20..0xFF -/

/-- Unicode code point for byte `0x20 + i` (IEC 62106 code table E.1). 0x7F and 0xFF are not
allocated in the table and are rendered as a space. -/
def g0 : List Nat := [
  -- 0x20   sp  !  "  #  ¤ (currency sign, not $)  %  &  '  (  )  *  +  ,  -  .  /
  0x0020, 0x0021, 0x0022, 0x0023, 0x00A4, 0x0025, 0x0026, 0x0027,
  0x0028, 0x0029, 0x002A, 0x002B, 0x002C, 0x002D, 0x002E, 0x002F,
  -- 0x30   0 1 2 3 4 5 6 7 8 9 : ; < = > ?
  0x0030, 0x0031, 0x0032, 0x0033, 0x0034, 0x0035, 0x0036, 0x0037,
  0x0038, 0x0039, 0x003A, 0x003B, 0x003C, 0x003D, 0x003E, 0x003F,
  -- 0x40   @ A B C D E F G H I J K L M N O
  0x0040, 0x0041, 0x0042, 0x0043, 0x0044, 0x0045, 0x0046, 0x0047,
  0x0048, 0x0049, 0x004A, 0x004B, 0x004C, 0x004D, 0x004E, 0x004F,
  -- 0x50   P Q R S T U V W X Y Z [ \ ] ― (horizontal bar) _
  0x0050, 0x0051, 0x0052, 0x0053, 0x0054, 0x0055, 0x0056, 0x0057,
  0x0058, 0x0059, 0x005A, 0x005B, 0x005C, 0x005D, 0x2015, 0x005F,
  -- 0x60   ‖ (double vertical line) a b c d e f g h i j k l m n o
  0x2016, 0x0061, 0x0062, 0x0063, 0x0064, 0x0065, 0x0066, 0x0067,
  0x0068, 0x0069, 0x006A, 0x006B, 0x006C, 0x006D, 0x006E, 0x006F,
  -- 0x70   p q r s t u v w x y z { | } ¯ (overline)  0x7F: not allocated
  0x0070, 0x0071, 0x0072, 0x0073, 0x0074, 0x0075, 0x0076, 0x0077,
  0x0078, 0x0079, 0x007A, 0x007B, 0x007C, 0x007D, 0x00AF, 0x0020,
  -- 0x80   á à é è í ì ó ò ú ù Ñ Ç Ş ß (German sharp s) ¡ Ĳ
  0x00E1, 0x00E0, 0x00E9, 0x00E8, 0x00ED, 0x00EC, 0x00F3, 0x00F2,
  0x00FA, 0x00F9, 0x00D1, 0x00C7, 0x015E, 0x00DF, 0x00A1, 0x0132,
  -- 0x90   â ä ê ë î ï ô ö û ü ñ ç ş ǧ ı (dotless i) ĳ
  0x00E2, 0x00E4, 0x00EA, 0x00EB, 0x00EE, 0x00EF, 0x00F4, 0x00F6,
  0x00FB, 0x00FC, 0x00F1, 0x00E7, 0x015F, 0x01E7, 0x0131, 0x0133,
  -- 0xA0   ª α © ‰ Ǧ ě ň ő π € £ $ ← ↑ → ↓
  0x00AA, 0x03B1, 0x00A9, 0x2030, 0x01E6, 0x011B, 0x0148, 0x0151,
  0x03C0, 0x20AC, 0x00A3, 0x0024, 0x2190, 0x2191, 0x2192, 0x2193,
  -- 0xB0   º ¹ ² ³ ± İ ń ű µ ¿ ÷ ° ¼ ½ ¾ §
  0x00BA, 0x00B9, 0x00B2, 0x00B3, 0x00B1, 0x0130, 0x0144, 0x0171,
  0x00B5, 0x00BF, 0x00F7, 0x00B0, 0x00BC, 0x00BD, 0x00BE, 0x00A7,
  -- 0xC0   Á À É È Í Ì Ó Ò Ú Ù Ř Č Š Ž Ð Ŀ
  0x00C1, 0x00C0, 0x00C9, 0x00C8, 0x00CD, 0x00CC, 0x00D3, 0x00D2,
  0x00DA, 0x00D9, 0x0158, 0x010C, 0x0160, 0x017D, 0x00D0, 0x013F,
  -- 0xD0   Â Ä Ê Ë Î Ï Ô Ö Û Ü ř č š ž đ ŀ
  0x00C2, 0x00C4, 0x00CA, 0x00CB, 0x00CE, 0x00CF, 0x00D4, 0x00D6,
  0x00DB, 0x00DC, 0x0159, 0x010D, 0x0161, 0x017E, 0x0111, 0x0140,
  -- 0xE0   Ã Å Æ Œ ŷ Ý Õ Ø Þ Ŋ Ŕ Ć Ś Ź Ŧ ð
  0x00C3, 0x00C5, 0x00C6, 0x0152, 0x0177, 0x00DD, 0x00D5, 0x00D8,
  0x00DE, 0x014A, 0x0154, 0x0106, 0x015A, 0x0179, 0x0166, 0x00F0,
  -- 0xF0   ã å æ œ ŵ ý õ ø þ ŋ ŕ ć ś ź ŧ   0xFF: not allocated
  0x00E3, 0x00E5, 0x00E6, 0x0153, 0x0175, 0x00FD, 0x00F5, 0x00F8,
  0x00FE, 0x014B, 0x0155, 0x0107, 0x015B, 0x017A, 0x0167, 0x0020]

/-- is byte `b` of an error-free reception stored at all? (0x0D = end of text, ≥ 0x20 = characters;
other control codes are ignored) -/
def stored (b : Nat) : Bool := b == 0x0D || 0x20 ≤ b

/-- placeholder found in the extracted tables where nothing is stored (the cell keeps its space) -/
def notStored : Nat := 0x20

/-- the value stored for byte `b` by the default (Unicode) build -/
def g0Value (b : Nat) : Nat :=
  if b == 0x0D then 0 else if b < 0x20 then notStored else g0.getD (b - 0x20) 0

/-- the value stored for byte `b` by the `RDSPARSER_DISABLE_UNICODE` build: the raw byte for
0x20..0x7E, a space for 0x7F and above -/
def narrowValue (b : Nat) : Nat :=
  if b == 0x0D then 0 else if b < 0x20 then notStored else if b < 0x7F then b else 0x20

/-! ## C18 — countries: enumeration order, names (library spellings), ISO 3166-1 alpha-2 -/

/-- enumerators 1..220 of `rdsparser_country` in order: (name as spelled by the library,
ISO 3166-1 alpha-2 code decided here). `"--"`: not a single ISO 3166-1 country/territory. -/
def countries : List (String × String) := [
  -- European broadcasting area, Africa, former USSR (the header interleaves two columns)
  ("Albania", "AL"), ("Estonia", "EE"), ("Algeria", "DZ"), ("Ethiopia", "ET"),
  ("Andorra", "AD"), ("Angola", "AO"), ("Finland", "FI"), ("Armenia", "AM"),
  ("France", "FR"),
  -- Ascension has no code of its own in ISO 3166-1 ("AC" is only exceptionally reserved);
  -- it is part of the entry SH "Saint Helena, Ascension and Tristan da Cunha"
  ("Ascension Island", "SH"),
  ("Gabon", "GA"), ("Austria", "AT"), ("Gambia", "GM"), ("Azerbaijan", "AZ"),
  ("Georgia", "GE"), ("Germany", "DE"), ("Bahrein", "BH"), ("Ghana", "GH"),
  ("Belarus", "BY"), ("Gibraltar", "GI"), ("Belgium", "BE"), ("Greece", "GR"),
  ("Benin", "BJ"), ("Guinea", "GN"), ("Bosnia Herzegovina", "BA"), ("Guinea-Bissau", "GW"),
  ("Botswana", "BW"), ("Hungary", "HU"), ("Bulgaria", "BG"), ("Iceland", "IS"),
  ("Burkina Faso", "BF"), ("Iraq", "IQ"), ("Burundi", "BI"), ("Ireland", "IE"),
  -- Cabinda is an exclave province of Angola, not an ISO 3166-1 entity
  ("Cabinda", "--"),
  ("Israel", "IL"), ("Cameroon", "CM"), ("Italy", "IT"), ("Jordan", "JO"),
  ("Cape Verde", "CV"), ("Kazakhstan", "KZ"), ("Central African Republic", "CF"), ("Kenya", "KE"),
  ("Chad", "TD"),
  ("Kosovo", "XK"),  -- user-assigned, in general use
  ("Comoros", "KM"), ("Kuwait", "KW"), ("DR Congo", "CD"), ("Kyrgyzstan", "KG"),
  ("Republic of Congo", "CG"), ("Latvia", "LV"), ("Cote d'Ivoire", "CI"), ("Lebanon", "LB"),
  ("Croatia", "HR"), ("Lesotho", "LS"), ("Cyprus", "CY"), ("Liberia", "LR"),
  ("Czechia", "CZ"), ("Libya", "LY"), ("Denmark", "DK"), ("Liechtenstein", "LI"),
  ("Djiboutia", "DJ"), ("Lithuania", "LT"), ("Egypt", "EG"), ("Luxembourg", "LU"),
  ("Equatorial Guinea", "GQ"), ("Macedonia", "MK"), ("Eritrea", "ER"), ("Madagascar", "MG"),
  ("Seychelles", "SC"), ("Malawi", "MW"), ("Sierra Leone", "SL"), ("Mali", "ML"),
  ("Slovakia", "SK"), ("Malta", "MT"), ("Slovenia", "SI"), ("Mauritania", "MR"),
  ("Somalia", "SO"), ("Mauritius", "MU"), ("South Africa", "ZA"), ("Moldova", "MD"),
  ("South Sudan", "SS"), ("Monaco", "MC"), ("Spain", "ES"), ("Mongolia", "MN"),
  ("Sudan", "SD"), ("Montenegro", "ME"), ("Swaziland", "SZ"), ("Morocco", "MA"),
  ("Sweden", "SE"), ("Mozambique", "MZ"), ("Switzerland", "CH"), ("Namibia", "NA"),
  ("Syria", "SY"), ("Netherlands", "NL"), ("Tajikistan", "TJ"), ("Niger", "NE"),
  ("Tanzania", "TZ"), ("Nigeria", "NG"), ("Togo", "TG"), ("Norway", "NO"),
  ("Tunisia", "TN"), ("Oman", "OM"), ("Turkey", "TR"), ("Palestine", "PS"),
  ("Turkmenistan", "TM"), ("Poland", "PL"), ("Uganda", "UG"), ("Portugal", "PT"),
  ("Ukraine", "UA"), ("Qatar", "QA"), ("United Arab Emirates", "AE"), ("Romania", "RO"),
  ("United Kingdom", "GB"), ("Russia", "RU"), ("Uzbekistan", "UZ"), ("Rwanda", "RW"),
  ("Vatican", "VA"), ("San Marino", "SM"), ("Western Sahara", "EH"),
  ("Sao Tome and Principe", "ST"), ("Yemen", "YE"), ("Saudi Arabia", "SA"), ("Zambia", "ZM"),
  ("Senegal", "SN"), ("Zimbabwe", "ZW"), ("Serbia", "RS"),
  -- the Americas
  ("Anguilla", "AI"), ("Guyana", "GY"), ("Antigua and Barbuda", "AG"), ("Haiti", "HT"),
  ("Argentina", "AR"), ("Honduras", "HN"), ("Aruba", "AW"), ("Jamaica", "JM"),
  ("Bahamas", "BS"), ("Martinique", "MQ"), ("Barbados", "BB"), ("Mexico", "MX"),
  ("Belize", "BZ"), ("Montserrat", "MS"),
  ("Brazil/Bermuda", "--"),   -- shared allocation: BR and BM
  ("Brazil/AN", "--"),        -- shared allocation: BR and the former Netherlands Antilles
  ("Bolivia", "BO"), ("Nicaragua", "NI"), ("Brazil", "BR"), ("Panama", "PA"),
  ("Canada", "CA"), ("Paraguay", "PY"), ("Cayman Islands", "KY"), ("Peru", "PE"),
  ("Chile", "CL"),
  ("USA/VI/PR", "--"),        -- shared allocation: US, VI (US Virgin Islands) and PR
  ("Colombia", "CO"), ("St. Kitts", "KN"), ("Costa Rica", "CR"), ("St. Lucia", "LC"),
  ("Cuba", "CU"), ("St. Pierre and Miquelon", "PM"), ("Dominica", "DM"), ("St. Vincent", "VC"),
  ("Dominican Republic", "DO"), ("Suriname", "SR"),
  ("El Salvador", "SV"),
  ("Trinidad and Tobago", "TT"),
  ("Turks and Caicos islands", "TC"),
  ("Falkland Islands", "FK"), ("Greenland", "GL"), ("Uruguay", "UY"), ("Grenada", "GD"),
  ("Venezuela", "VE"), ("Guadeloupe", "GP"),
  -- the standard's "Virgin Islands [British]"; the US Virgin Islands are in "USA/VI/PR"
  ("Virgin Islands", "VG"),
  ("Guatemala", "GT"),
  -- Asia and the Pacific
  ("Afghanistan", "AF"), ("South Korea", "KR"), ("Laos", "LA"),
  ("Australia Capital Territory", "AU"), ("Macao", "MO"),
  ("Australia New South Wales", "AU"), ("Malaysia", "MY"),
  ("Australia Victoria", "AU"), ("Maldives", "MV"),
  ("Australia Queensland", "AU"), ("Marshall Islands", "MH"),
  ("Australia South Australia", "AU"), ("Micronesia", "FM"),
  ("Australia Western Australia", "AU"), ("Myanmar", "MM"),
  ("Australia Tasmania", "AU"), ("Nauru", "NR"),
  ("Australia Northern Territory", "AU"), ("Nepal", "NP"),
  ("Bangladesh", "BD"), ("New Zealand", "NZ"), ("Bhutan", "BT"), ("Pakistan", "PK"),
  ("Brunei Darussalam", "BN"), ("Papua New Guinea", "PG"), ("Cambodia", "KH"),
  ("Philippines", "PH"), ("China", "CN"), ("Samoa", "WS"), ("Singapore", "SG"),
  ("Solomon Islands", "SB"), ("Fiji", "FJ"), ("Sri Lanka", "LK"), ("Hong Kong", "HK"),
  ("Taiwan", "TW"), ("India", "IN"), ("Thailand", "TH"), ("Indonesia", "ID"),
  ("Tonga", "TO"), ("Iran", "IR"), ("Vanuatu", "VU"), ("Japan", "JP"),
  ("Vietnam", "VN"), ("Kiribati", "KI"), ("North Korea", "KP"),
  ("Brazil/Equator", "--")]   -- shared allocation: BR and Ecuador ("Équateur")

/-- name ↦ ISO 3166-1 alpha-2 (association list keyed by the library's spelling) -/
def iso3166 : List (String × String) := countries

/-- ISO code of the entity called `name`; `"!!"` (which no lookup ever returns) if the name is
not in the reference, so that an unknown name can never pass a check silently. -/
def isoOf (name : String) : String := (iso3166.lookup name).getD "!!"

/-- names by enumerator: 0 = `RDSPARSER_COUNTRY_UNKNOWN`, 1..220 -/
def countryNames : List String := "Unknown" :: countries.map Prod.fst

/-- `RDSPARSER_COUNTRY_COUNT` -/
def countryCount : Nat := 221

/-- groups of entries that denote (parts of) the same ISO 3166-1 country and may therefore
share an alpha-2 code -/
def aliasClasses : List (List String) := [
  ["Australia Capital Territory", "Australia New South Wales", "Australia Victoria",
   "Australia Queensland", "Australia South Australia", "Australia Western Australia",
   "Australia Tasmania", "Australia Northern Territory"]]

/-- do the two names denote the same country (equal, or in one alias class)? -/
def sameCountry (a b : String) : Bool :=
  a == b || aliasClasses.any (fun c => c.contains a && c.contains b)

/-- a well-formed result of the ISO lookup: two capital letters, or the `"--"` placeholder -/
def isoShape (s : String) : Bool :=
  s == "--" || (s.length == 2 && s.toList.all (fun c => 'A' ≤ c && c ≤ 'Z'))

/-! ## C11 — IEC 62106-4 country/area identification (ECC × PI country nibble) -/

/-- For each allocated extended country code: the owner of PI country nibble 1, 2, …, F
(`""` = not allocated, or allocated to an area for which the library has no enumerator — see the
notes at the end of the section). Names are those of `countries`. -/
def iecColumns : List (Nat × List String) := [
  -- ITU region 2
  (0xA0, [ "USA/VI/PR", "USA/VI/PR", "USA/VI/PR", "USA/VI/PR", "USA/VI/PR",      -- 1..5
           "USA/VI/PR", "USA/VI/PR", "USA/VI/PR", "USA/VI/PR", "USA/VI/PR",      -- 6..A
           "USA/VI/PR", "", "USA/VI/PR", "USA/VI/PR", "" ]),                     -- B C D E F
  (0xA1, [ "", "", "", "", "", "", "", "", "", "",
           "Canada", "Canada", "Canada", "Canada", "Greenland" ]),
  (0xA2, [ "Anguilla", "Antigua and Barbuda", "Brazil/Equator", "Falkland Islands", "Barbados",
           "Belize", "Cayman Islands", "Costa Rica", "Cuba", "Argentina",
           "Brazil", "Brazil/Bermuda", "Brazil/AN", "Guadeloupe", "Bahamas" ]),
  (0xA3, [ "Bolivia", "Colombia", "Jamaica", "Martinique", "" /- French Guiana -/,
           "Paraguay", "Nicaragua", "", "Panama", "Dominica",
           "Dominican Republic", "Chile", "Grenada", "Turks and Caicos islands", "Guyana" ]),
  (0xA4, [ "Guatemala", "Honduras", "Aruba", "", "Montserrat",
           "Trinidad and Tobago", "Peru", "Suriname", "Uruguay", "St. Kitts",
           "St. Lucia", "El Salvador", "Haiti", "Venezuela", "Virgin Islands" ]),
  (0xA5, [ "", "", "", "", "", "", "", "", "", "",
           "Mexico", "St. Vincent", "Mexico", "Mexico", "Mexico" ]),
  (0xA6, [ "", "", "", "", "", "", "", "", "", "",
           "", "", "", "", "St. Pierre and Miquelon" ]),
  -- Africa
  (0xD0, [ "Cameroon", "Central African Republic", "Djiboutia", "Madagascar", "Mali",
           "Angola", "Equatorial Guinea", "Gabon", "Guinea", "South Africa",
           "Burkina Faso", "Republic of Congo", "Togo", "Benin", "Malawi" ]),
  (0xD1, [ "Namibia", "Liberia", "Ghana", "Mauritania", "Sao Tome and Principe",
           "Cape Verde", "Senegal", "Gambia", "Burundi", "Ascension Island",
           "Botswana", "Comoros", "Tanzania", "Ethiopia", "Nigeria" ]),
  (0xD2, [ "Sierra Leone", "Zimbabwe", "Mozambique", "Uganda", "Swaziland",
           "Kenya", "Somalia", "Niger", "Chad", "Guinea-Bissau",
           "DR Congo", "Cote d'Ivoire", "" /- Zanzibar in older editions -/, "Zambia", "Eritrea" ]),
  (0xD3, [ "", "", "Western Sahara", "Cabinda", "Rwanda",
           "Lesotho", "", "Seychelles", "", "Mauritius",
           "", "Sudan", "", "", "" ]),
  (0xD4, [ "", "", "", "", "", "", "", "", "", "South Sudan",
           "", "", "", "", "" ]),
  -- European broadcasting area
  (0xE0, [ "Germany", "Algeria", "Andorra", "Israel", "Italy",
           "Belgium", "Russia", "Palestine", "Albania", "Austria",
           "Hungary", "Malta", "Germany", "", "Egypt" ]),
  (0xE1, [ "Greece", "Cyprus", "San Marino", "Switzerland", "Jordan",
           "Finland", "Luxembourg", "Bulgaria", "Denmark", "Gibraltar",
           "Iraq", "United Kingdom", "Libya", "Romania", "France" ]),
  (0xE2, [ "Morocco", "Czechia", "Poland", "Vatican", "Slovakia",
           "Syria", "Tunisia", "", "Liechtenstein", "Iceland",
           "Monaco", "Lithuania", "Serbia", "Spain", "Norway" ]),
  -- E3/4, E4/3, E5/3: as in IEC 62106-4:2018 (see `legacyCells` for the older editions)
  (0xE3, [ "Montenegro", "Ireland", "Turkey", "", "Tajikistan",
           "", "", "Netherlands", "Latvia", "Lebanon",
           "Azerbaijan", "Croatia", "Kazakhstan", "Sweden", "Belarus" ]),
  (0xE4, [ "Moldova", "Estonia", "Macedonia", "", "",
           "Ukraine", "Kosovo", "Portugal", "Slovenia", "Armenia",
           "Uzbekistan", "Georgia", "", "Turkmenistan", "Bosnia Herzegovina" ]),
  (0xE5, [ "", "", "Kyrgyzstan", "", "", "", "", "", "", "",
           "", "", "", "", "" ]),
  -- Asia and the Pacific
  (0xF0, [ "Australia Capital Territory", "Australia New South Wales", "Australia Victoria",
           "Australia Queensland", "Australia South Australia", "Australia Western Australia",
           "Australia Tasmania", "Australia Northern Territory", "Saudi Arabia", "Afghanistan",
           "Myanmar", "China", "North Korea", "Bahrein", "Malaysia" ]),
  (0xF1, [ "Kiribati", "Bhutan", "Bangladesh", "Pakistan", "Fiji",
           "Oman", "Nauru", "Iran", "New Zealand", "Solomon Islands",
           "Brunei Darussalam", "Sri Lanka", "Taiwan", "South Korea", "Hong Kong" ]),
  (0xF2, [ "Kuwait", "Qatar", "Cambodia", "Samoa", "India",
           "Macao", "Vietnam", "Philippines", "Japan", "Singapore",
           "Maldives", "Indonesia", "United Arab Emirates", "Nepal", "Vanuatu" ]),
  (0xF3, [ "Laos", "Thailand", "Tonga", "", "",
           "", "", "China", "Papua New Guinea", "",
           "Yemen", "", "", "Micronesia", "Mongolia" ]),
  (0xF4, [ "", "", "", "", "", "", "", "", "China", "",
           "Marshall Islands", "", "", "", "" ])]

/-- enumerator of the entity called `name` (`""` ↦ unknown = 0). A name that is not in
`countryNames` gives 221 = `countryCount`, which is out of range and fails every check. -/
def enumOf (name : String) : Nat := if name == "" then 0 else countryNames.idxOf name

/-- IEC 62106-4: country enumerator for PI country nibble `nib` (0..15) and ECC byte `ecc`;
0 = unknown for nibble 0 and for ECC bytes that are not allocated -/
def iec (nib ecc : Nat) : Nat :=
  if nib == 0 || 15 < nib then 0
  else match iecColumns.lookup ecc with
    | none => 0
    | some col => enumOf (col.getD (nib - 1) "")

/-- the same in the shape of `Generated.eccCountry`: row 0 = PI unknown, row n+1 = PI nibble n;
256 ECC columns -/
def iecTable : List (List Nat) :=
  (List.range 17).map fun row => (List.range 256).map fun e => if row == 0 then 0 else iec (row - 1) e

/-- the 23 allocated ECC bytes -/
def eccCodes : List Nat := iecColumns.map Prod.fst

/-- Cells in which EN 50067:1998 / IEC 62106:2009 / IEC 62106:2015 (Annex D) differ from the
IEC 62106-4:2018 layout used above: (nibble, ECC, owner in the older editions). -/
def legacyCells : List (Nat × Nat × String) :=
  [(4, 0xE3, "Macedonia"), (3, 0xE4, "Kyrgyzstan"), (3, 0xE5, "")]

/-! ## C18 — programme types -/

/-- IEC 62106 Annex F, PTY 0..31: description -/
def ptyRdsName : List String := [
  "No programme type or undefined", "News", "Current affairs", "Information",
  "Sport", "Education", "Drama", "Culture",
  "Science", "Varied", "Pop music", "Rock music",
  "Easy listening music", "Light classical", "Serious classical", "Other music",
  "Weather", "Finance", "Children's programmes", "Social affairs",
  "Religion", "Phone in", "Travel", "Leisure",
  "Jazz music", "Country music", "National music", "Oldies music",
  "Folk music", "Documentary", "Alarm test", "Alarm"]

/-- IEC 62106 Annex F: 8-character display -/
def ptyRdsShort : List String := [
  "", "News", "Affairs", "Info",
  "Sport", "Educate", "Drama", "Culture",
  "Science", "Varied", "Pop M", "Rock M",
  "Easy M", "Light M", "Classics", "Other M",
  "Weather", "Finance", "Children", "Social",
  "Religion", "Phone in", "Travel", "Leisure",
  "Jazz", "Country", "Nation M", "Oldies",
  "Folk M", "Document", "TEST", "Alarm !"]

/-- IEC 62106 Annex F: 16-character display -/
def ptyRdsLong : List String := [
  "", "News", "Current affairs", "Information",
  "Sport", "Education", "Drama", "Cultures",
  "Science", "Varied speech", "Pop music", "Rock music",
  "Easy listening", "Light classics m", "Serious classics", "Other music",
  "Weather & metr", "Finance", "Children's progs", "Social affairs",
  "Religion", "Phone in", "Travel & touring", "Leisure & hobby",
  "Jazz music", "Country music", "National music", "Oldies music",
  "Folk music", "Documentary", "Alarm test", "Alarm - Alarm !"]

/-- NRSC-4 (RBDS) Annex F, PTY 0..31: description -/
def ptyRbdsName : List String := [
  "No program type or undefined", "News", "Information", "Sports",
  "Talk", "Rock", "Classic Rock", "Adult Hits",
  "Soft Rock", "Top 40", "Country", "Oldies",
  "Soft", "Nostalgia", "Jazz", "Classical",
  "Rhythm and Blues", "Soft Rhythm and Blues", "Foreign Language", "Religious Music",
  "Religious Talk", "Personality", "Public", "College",
  "Spanish Talk", "Spanish Music", "Hip-Hop", "Unassigned",
  "Unassigned", "Weather", "Emergency Test", "Emergency"]

/-- NRSC-4 Annex F: 8-character display -/
def ptyRbdsShort : List String := [
  "None", "News", "Inform", "Sports",
  "Talk", "Rock", "Cls Rock", "Adlt Hit",
  "Soft Rck", "Top 40", "Country", "Oldies",
  "Soft", "Nostalga", "Jazz", "Classicl",
  "R & B", "Soft R&B", "Language", "Rel Musc",
  "Rel Talk", "Persnlty", "Public", "College",
  "Habl Esp", "Musc Esp", "Hip hop", "",
  "", "Weather", "Test", "ALERT !"]

/-- NRSC-4 Annex F: 16-character display -/
def ptyRbdsLong : List String := [
  "None", "News", "Information", "Sports",
  "Talk", "Rock", "Classic Rock", "Adult Hits",
  "Soft Rock", "Top 40", "Country", "Oldies",
  "Soft", "Nostalgia", "Jazz", "Classical",
  "Rhythm and Blues", "Soft R & B", "Foreign Language", "Religious Music",
  "Religious Talk", "Personality", "Public", "College",
  "Hablar Espanol", "Musica Espanol", "Hip hop", "",
  "", "Weather", "Emergency Test", "ALERT! ALERT!"]

inductive PtyTbl | name | short | long
deriving DecidableEq, Repr

/-- the reference PTY table: which text, RDS (`false`) or RBDS (`true`) -/
def pty : PtyTbl → Bool → List String
  | .name, false => ptyRdsName | .short, false => ptyRdsShort | .long, false => ptyRdsLong
  | .name, true => ptyRbdsName | .short, true => ptyRbdsShort | .long, true => ptyRbdsLong

/-- display width limit of a PTY text (none for the description) -/
def ptyWidth : PtyTbl → Option Nat
  | .name => none | .short => some 8 | .long => some 16

/-- what `rdsparser_pty_lookup_*` must return for argument index `a` (argument mod 256) -/
def ptyExpected (t : PtyTbl) (rbds : Bool) (a : Nat) : Option String :=
  if a < 32 then (pty t rbds)[a]? else some "Unknown"

end RDS.Reference
