/-!
# RdsSpec.Reference — hand-written ORACLE tables (never regenerated)

Everything in this file was written by hand from the standards, *not* copied from
`RdsModel/Generated.lean` (which is regenerated from the compiled library on every run) and
not mechanically derived from `/repo/src`:

* `g0`          — IEC 62106 (EN 50067) Annex E, code table E.1: the "complete EBU Latin based
                  repertoire" (RDS basic character set G0), bytes 0x20..0xFF, as Unicode code points.
* `Country`, `countries` — the entities of the library's `rdsparser_country` enumeration
                  (enumerator order and the library's spellings of the names are the only things
                  taken from `/repo/include/librdsparser.h`), each with its ISO 3166-1 alpha-2 code as
                  assigned by ISO 3166/MA ("XK": user-assigned code in general use for Kosovo;
                  "--": not a single ISO 3166-1 country).
* `iecColumns`  — IEC 62106-4:2018 (Annex D / Annex N of EN 50067:1998, IEC 62106:2009/2015),
                  country/area identification: for every extended country code the area that owns
                  each PI country nibble 1..F.
* `pty…`        — programme type names, IEC 62106 Annex F (RDS) and NRSC-4 Annex F (RBDS),
                  with the 8- and 16-character display forms.

Core Lean only; no imports, so nothing in here can depend on the library under test.
-/
namespace RDS.Reference

/-! ## C02 — RDS basic character set (G0), bytes 0x20..0xFF -/

/-- Unicode code point for byte `0x20 + i` (IEC 62106 code table E.1). 0x7F and 0xFF are not
allocated in the table and are rendered as a space. -/
def g0 : List Nat := [
  -- 0x20   sp  !  "  #  ¤ (currency sign, not $)  %  &  '  (  )  *  +  ,  -  .  /
  0x0020, 0x0021, 0x0022, 0x0023, 0x00A4, 0x0025, 0x0026, 0x0027,
  0x0028, 0x0029, 0x002A, 0x002B, 0x002C, 0x002D, 0x002E, 0x002F,
  -- 0x30   0 1 2 3 4 5 6 7 8 9 : ; < = > ?
  0x0030, 0x0031, 0x0032, 0x0033, 0x0034, 0x0035, 0x0036, 0x0037,
  0x0038, 0x0039, 0x003A, 0x003B, 0x003C, 0x003D, 0x003E, 0x003F,
  -- 0x40   @ A B C D E F G H I J K L M N O
  0x0040, 0x0041, 0x0042, 0x0043, 0x0044, 0x0045, 0x0046, 0x0047,
  0x0048, 0x0049, 0x004A, 0x004B, 0x004C, 0x004D, 0x004E, 0x004F,
  -- 0x50   P Q R S T U V W X Y Z [ \ ] ― (horizontal bar) _
  0x0050, 0x0051, 0x0052, 0x0053, 0x0054, 0x0055, 0x0056, 0x0057,
  0x0058, 0x0059, 0x005A, 0x005B, 0x005C, 0x005D, 0x2015, 0x005F,
  -- 0x60   ‖ (double vertical line) a b c d e f g h i j k l m n o
  0x2016, 0x0061, 0x0062, 0x0063, 0x0064, 0x0065, 0x0066, 0x0067,
  0x0068, 0x0069, 0x006A, 0x006B, 0x006C, 0x006D, 0x006E, 0x006F,
  -- 0x70   p q r s t u v w x y z { | } ¯ (overline)  0x7F: not allocated
  0x0070, 0x0071, 0x0072, 0x0073, 0x0074, 0x0075, 0x0076, 0x0077,
  0x0078, 0x0079, 0x007A, 0x007B, 0x007C, 0x007D, 0x00AF, 0x0020,
  -- 0x80   á à é è í ì ó ò ú ù Ñ Ç Ş β ¡ Ĳ   (0x8D: the glyph of table E.1 is drawn like a beta; the library and other decoders (redsea) use U+03B2, some use the German sharp s U+00DF. JUDGEMENT, see DESIGN.md §6 C02: kept as U+03B2)
  0x00E1, 0x00E0, 0x00E9, 0x00E8, 0x00ED, 0x00EC, 0x00F3, 0x00F2,
  0x00FA, 0x00F9, 0x00D1, 0x00C7, 0x015E, 0x03B2, 0x00A1, 0x0132,
  -- 0x90   â ä ê ë î ï ô ö û ü ñ ç ş ǧ ı (dotless i) ĳ
  0x00E2, 0x00E4, 0x00EA, 0x00EB, 0x00EE, 0x00EF, 0x00F4, 0x00F6,
  0x00FB, 0x00FC, 0x00F1, 0x00E7, 0x015F, 0x01E7, 0x0131, 0x0133,
  -- 0xA0   ª α © ‰ Ǧ ě ň ő π € £ $ ← ↑ → ↓
  0x00AA, 0x03B1, 0x00A9, 0x2030, 0x01E6, 0x011B, 0x0148, 0x0151,
  0x03C0, 0x20AC, 0x00A3, 0x0024, 0x2190, 0x2191, 0x2192, 0x2193,
  -- 0xB0   º ¹ ² ³ ± İ ń ű µ ¿ ÷ ° ¼ ½ ¾ §
  0x00BA, 0x00B9, 0x00B2, 0x00B3, 0x00B1, 0x0130, 0x0144, 0x0171,
  0x00B5, 0x00BF, 0x00F7, 0x00B0, 0x00BC, 0x00BD, 0x00BE, 0x00A7,
  -- 0xC0   Á À É È Í Ì Ó Ò Ú Ù Ř Č Š Ž Ð Ŀ
  0x00C1, 0x00C0, 0x00C9, 0x00C8, 0x00CD, 0x00CC, 0x00D3, 0x00D2,
  0x00DA, 0x00D9, 0x0158, 0x010C, 0x0160, 0x017D, 0x00D0, 0x013F,
  -- 0xD0   Â Ä Ê Ë Î Ï Ô Ö Û Ü ř č š ž đ ŀ
  0x00C2, 0x00C4, 0x00CA, 0x00CB, 0x00CE, 0x00CF, 0x00D4, 0x00D6,
  0x00DB, 0x00DC, 0x0159, 0x010D, 0x0161, 0x017E, 0x0111, 0x0140,
  -- 0xE0   Ã Å Æ Œ ŷ Ý Õ Ø Þ Ŋ Ŕ Ć Ś Ź Ŧ ð
  0x00C3, 0x00C5, 0x00C6, 0x0152, 0x0177, 0x00DD, 0x00D5, 0x00D8,
  0x00DE, 0x014A, 0x0154, 0x0106, 0x015A, 0x0179, 0x0166, 0x00F0,
  -- 0xF0   ã å æ œ ŵ ý õ ø þ ŋ ŕ ć ś ź ŧ   0xFF: not allocated
  0x00E3, 0x00E5, 0x00E6, 0x0153, 0x0175, 0x00FD, 0x00F5, 0x00F8,
  0x00FE, 0x014B, 0x0155, 0x0107, 0x015B, 0x017A, 0x0167, 0x0020]

/-- is byte `b` of an error-free reception stored at all? (0x0D = end of text, ≥ 0x20 = characters;
other control codes are ignored) -/
def stored (b : Nat) : Bool := b == 0x0D || 0x20 ≤ b

/-- placeholder found in the extracted tables where nothing is stored (the cell keeps its space) -/
def notStored : Nat := 0x20

/-- the value stored for byte `b` by the default (Unicode) build -/
def g0Value (b : Nat) : Nat :=
  if b == 0x0D then 0 else if b < 0x20 then notStored else g0.getD (b - 0x20) 0

/-- the value stored for byte `b` by the `RDSPARSER_DISABLE_UNICODE` build: the raw byte for
0x20..0x7E, a space for 0x7F and above -/
def narrowValue (b : Nat) : Nat :=
  if b == 0x0D then 0 else if b < 0x20 then notStored else if b < 0x7F then b else 0x20

/-! ## C18 — countries: enumeration, names (library spellings), ISO 3166-1 alpha-2 -/

/-- The entities of `rdsparser_country`, in the order of the C enumeration
(`RDSPARSER_COUNTRY_UNKNOWN` = 0 … `RDSPARSER_COUNTRY_BRAZIL_OR_EQUATOR` = 220): the constructor
index *is* the enumerator. The C header lists the entities of IEC 62106-4 in three blocks
(Europe/Africa, the Americas, Asia/Pacific), each interleaving the two columns of the standard's
alphabetical table. -/
inductive Country
  | unknown | albania | estonia | algeria | ethiopia | andorra | angola | finland | armenia | france
  | ascensionIsland | gabon | austria | gambia | azerbaijan | georgia | germany | bahrein | ghana
  | belarus | gibraltar | belgium | greece | benin | guinea | bosniaHerzegovina | guineaBissau
  | botswana | hungary | bulgaria | iceland | burkinaFaso | iraq | burundi | ireland | cabinda
  | israel | cameroon | italy | jordan | capeVerde | kazakhstan | centralAfricanRepublic | kenya
  | chad | kosovo | comoros | kuwait | drCongo | kyrgyzstan | republicOfCongo | latvia | coteDIvoire
  | lebanon | croatia | lesotho | cyprus | liberia | czechia | libya | denmark | liechtenstein
  | djiboutia | lithuania | egypt | luxembourg | equatorialGuinea | macedonia | eritrea | madagascar
  | seychelles | malawi | sierraLeone | mali | slovakia | malta | slovenia | mauritania | somalia
  | mauritius | southAfrica | moldova | southSudan | monaco | spain | mongolia | sudan | montenegro
  | swaziland | morocco | sweden | mozambique | switzerland | namibia | syria | netherlands
  | tajikistan | niger | tanzania | nigeria | togo | norway | tunisia | oman | turkey | palestine
  | turkmenistan | poland | uganda | portugal | ukraine | qatar | unitedArabEmirates | romania
  | unitedKingdom | russia | uzbekistan | rwanda | vatican | sanMarino | westernSahara
  | saoTomeAndPrincipe | yemen | saudiArabia | zambia | senegal | zimbabwe | serbia | anguilla
  | guyana | antiguaAndBarbuda | haiti | argentina | honduras | aruba | jamaica | bahamas
  | martinique | barbados | mexico | belize | montserrat | brazilOrBermuda
  | brazilOrNetherlandsAntilles | bolivia | nicaragua | brazil | panama | canada | paraguay
  | caymanIslands | peru | chile | usaOrViOrPr | colombia | stKitts | costaRica | stLucia | cuba
  | stPierreAndMiquelon | dominica | stVincent | dominicanRepublic | suriname | elSalvador
  | trinidadAndTobago | turksAndCaicosIslands | falklandIslands | greenland | uruguay | grenada
  | venezuela | guadeloupe | virginIslands | guatemala | afghanistan | southKorea | laos
  | australiaCapitalTerritory | macao | australiaNewSouthWales | malaysia | australiaVictoria
  | maldives | australiaQueensland | marshallIslands | australiaSouthAustralia | micronesia
  | australiaWesternAustralia | myanmar | australiaTasmania | nauru | australiaNorthernTerritory
  | nepal | bangladesh | newZealand | bhutan | pakistan | bruneiDarussalam | papuaNewGuinea
  | cambodia | philippines | china | samoa | singapore | solomonIslands | fiji | sriLanka | hongKong
  | taiwan | india | thailand | indonesia | tonga | iran | vanuatu | japan | vietnam | kiribati
  | northKorea | brazilOrEquator

/-- the value of the C enumerator -/
def Country.enumerator (c : Country) : Nat := c.ctorIdx

/-- `RDSPARSER_COUNTRY_COUNT` -/
def countryCount : Nat := 221

/-- Every enumerator with the name the library gives it and its ISO 3166-1 alpha-2 code as
decided here (ISO 3166/MA assignments; `"--"`: not a single ISO 3166-1 country or territory).
Row `i` is enumerator `i` (theorem `tbl_reference_shape`). -/
def countries : List (Country × String × String) := [
  (.unknown, "Unknown", "??"),   -- RDSPARSER_COUNTRY_UNKNOWN; "??" is the lookup's out-of-range answer
  -- European broadcasting area, Africa, former USSR (the header interleaves two columns)
  (.albania, "Albania", "AL"), (.estonia, "Estonia", "EE"), (.algeria, "Algeria", "DZ"), (.ethiopia, "Ethiopia", "ET"),
  (.andorra, "Andorra", "AD"), (.angola, "Angola", "AO"), (.finland, "Finland", "FI"), (.armenia, "Armenia", "AM"),
  (.france, "France", "FR"),
  -- Ascension has no code of its own in ISO 3166-1 ("AC" is only exceptionally reserved);
  -- it is part of the entry SH "Saint Helena, Ascension and Tristan da Cunha"
  (.ascensionIsland, "Ascension Island", "SH"),
  (.gabon, "Gabon", "GA"), (.austria, "Austria", "AT"), (.gambia, "Gambia", "GM"), (.azerbaijan, "Azerbaijan", "AZ"),
  (.georgia, "Georgia", "GE"), (.germany, "Germany", "DE"), (.bahrein, "Bahrein", "BH"), (.ghana, "Ghana", "GH"),
  (.belarus, "Belarus", "BY"), (.gibraltar, "Gibraltar", "GI"), (.belgium, "Belgium", "BE"), (.greece, "Greece", "GR"),
  (.benin, "Benin", "BJ"), (.guinea, "Guinea", "GN"), (.bosniaHerzegovina, "Bosnia Herzegovina", "BA"), (.guineaBissau, "Guinea-Bissau", "GW"),
  (.botswana, "Botswana", "BW"), (.hungary, "Hungary", "HU"), (.bulgaria, "Bulgaria", "BG"), (.iceland, "Iceland", "IS"),
  (.burkinaFaso, "Burkina Faso", "BF"), (.iraq, "Iraq", "IQ"), (.burundi, "Burundi", "BI"), (.ireland, "Ireland", "IE"),
  -- Cabinda is an exclave province of Angola, not an ISO 3166-1 entity
  (.cabinda, "Cabinda", "--"),
  (.israel, "Israel", "IL"), (.cameroon, "Cameroon", "CM"), (.italy, "Italy", "IT"), (.jordan, "Jordan", "JO"),
  (.capeVerde, "Cape Verde", "CV"), (.kazakhstan, "Kazakhstan", "KZ"), (.centralAfricanRepublic, "Central African Republic", "CF"), (.kenya, "Kenya", "KE"),
  (.chad, "Chad", "TD"),
  (.kosovo, "Kosovo", "XK"),  -- user-assigned, in general use
  (.comoros, "Comoros", "KM"), (.kuwait, "Kuwait", "KW"), (.drCongo, "DR Congo", "CD"), (.kyrgyzstan, "Kyrgyzstan", "KG"),
  (.republicOfCongo, "Republic of Congo", "CG"), (.latvia, "Latvia", "LV"), (.coteDIvoire, "Cote d'Ivoire", "CI"), (.lebanon, "Lebanon", "LB"),
  (.croatia, "Croatia", "HR"), (.lesotho, "Lesotho", "LS"), (.cyprus, "Cyprus", "CY"), (.liberia, "Liberia", "LR"),
  (.czechia, "Czechia", "CZ"), (.libya, "Libya", "LY"), (.denmark, "Denmark", "DK"), (.liechtenstein, "Liechtenstein", "LI"),
  (.djiboutia, "Djiboutia", "DJ"), (.lithuania, "Lithuania", "LT"), (.egypt, "Egypt", "EG"), (.luxembourg, "Luxembourg", "LU"),
  (.equatorialGuinea, "Equatorial Guinea", "GQ"), (.macedonia, "Macedonia", "MK"), (.eritrea, "Eritrea", "ER"), (.madagascar, "Madagascar", "MG"),
  (.seychelles, "Seychelles", "SC"), (.malawi, "Malawi", "MW"), (.sierraLeone, "Sierra Leone", "SL"), (.mali, "Mali", "ML"),
  (.slovakia, "Slovakia", "SK"), (.malta, "Malta", "MT"), (.slovenia, "Slovenia", "SI"), (.mauritania, "Mauritania", "MR"),
  (.somalia, "Somalia", "SO"), (.mauritius, "Mauritius", "MU"), (.southAfrica, "South Africa", "ZA"), (.moldova, "Moldova", "MD"),
  (.southSudan, "South Sudan", "SS"), (.monaco, "Monaco", "MC"), (.spain, "Spain", "ES"), (.mongolia, "Mongolia", "MN"),
  (.sudan, "Sudan", "SD"), (.montenegro, "Montenegro", "ME"), (.swaziland, "Swaziland", "SZ"), (.morocco, "Morocco", "MA"),
  (.sweden, "Sweden", "SE"), (.mozambique, "Mozambique", "MZ"), (.switzerland, "Switzerland", "CH"), (.namibia, "Namibia", "NA"),
  (.syria, "Syria", "SY"), (.netherlands, "Netherlands", "NL"), (.tajikistan, "Tajikistan", "TJ"), (.niger, "Niger", "NE"),
  (.tanzania, "Tanzania", "TZ"), (.nigeria, "Nigeria", "NG"), (.togo, "Togo", "TG"), (.norway, "Norway", "NO"),
  (.tunisia, "Tunisia", "TN"), (.oman, "Oman", "OM"), (.turkey, "Turkey", "TR"), (.palestine, "Palestine", "PS"),
  (.turkmenistan, "Turkmenistan", "TM"), (.poland, "Poland", "PL"), (.uganda, "Uganda", "UG"), (.portugal, "Portugal", "PT"),
  (.ukraine, "Ukraine", "UA"), (.qatar, "Qatar", "QA"), (.unitedArabEmirates, "United Arab Emirates", "AE"), (.romania, "Romania", "RO"),
  (.unitedKingdom, "United Kingdom", "GB"), (.russia, "Russia", "RU"), (.uzbekistan, "Uzbekistan", "UZ"), (.rwanda, "Rwanda", "RW"),
  (.vatican, "Vatican", "VA"), (.sanMarino, "San Marino", "SM"), (.westernSahara, "Western Sahara", "EH"),
  (.saoTomeAndPrincipe, "Sao Tome and Principe", "ST"), (.yemen, "Yemen", "YE"), (.saudiArabia, "Saudi Arabia", "SA"), (.zambia, "Zambia", "ZM"),
  (.senegal, "Senegal", "SN"), (.zimbabwe, "Zimbabwe", "ZW"), (.serbia, "Serbia", "RS"),
  -- the Americas
  (.anguilla, "Anguilla", "AI"), (.guyana, "Guyana", "GY"), (.antiguaAndBarbuda, "Antigua and Barbuda", "AG"), (.haiti, "Haiti", "HT"),
  (.argentina, "Argentina", "AR"), (.honduras, "Honduras", "HN"), (.aruba, "Aruba", "AW"), (.jamaica, "Jamaica", "JM"),
  (.bahamas, "Bahamas", "BS"), (.martinique, "Martinique", "MQ"), (.barbados, "Barbados", "BB"), (.mexico, "Mexico", "MX"),
  (.belize, "Belize", "BZ"), (.montserrat, "Montserrat", "MS"),
  (.brazilOrBermuda, "Brazil/Bermuda", "--"),   -- shared allocation: BR and BM
  (.brazilOrNetherlandsAntilles, "Brazil/AN", "--"),        -- shared allocation: BR and the former Netherlands Antilles
  (.bolivia, "Bolivia", "BO"), (.nicaragua, "Nicaragua", "NI"), (.brazil, "Brazil", "BR"), (.panama, "Panama", "PA"),
  (.canada, "Canada", "CA"), (.paraguay, "Paraguay", "PY"), (.caymanIslands, "Cayman Islands", "KY"), (.peru, "Peru", "PE"),
  (.chile, "Chile", "CL"),
  (.usaOrViOrPr, "USA/VI/PR", "--"),        -- shared allocation: US, VI (US Virgin Islands) and PR
  (.colombia, "Colombia", "CO"), (.stKitts, "St. Kitts", "KN"), (.costaRica, "Costa Rica", "CR"), (.stLucia, "St. Lucia", "LC"),
  (.cuba, "Cuba", "CU"), (.stPierreAndMiquelon, "St. Pierre and Miquelon", "PM"), (.dominica, "Dominica", "DM"), (.stVincent, "St. Vincent", "VC"),
  (.dominicanRepublic, "Dominican Republic", "DO"), (.suriname, "Suriname", "SR"),
  (.elSalvador, "El Salvador", "SV"),
  (.trinidadAndTobago, "Trinidad and Tobago", "TT"),
  (.turksAndCaicosIslands, "Turks and Caicos islands", "TC"),
  (.falklandIslands, "Falkland Islands", "FK"), (.greenland, "Greenland", "GL"), (.uruguay, "Uruguay", "UY"), (.grenada, "Grenada", "GD"),
  (.venezuela, "Venezuela", "VE"), (.guadeloupe, "Guadeloupe", "GP"),
  -- the standard's "Virgin Islands [British]"; the US Virgin Islands are in "USA/VI/PR"
  (.virginIslands, "Virgin Islands", "VG"),
  (.guatemala, "Guatemala", "GT"),
  -- Asia and the Pacific
  (.afghanistan, "Afghanistan", "AF"), (.southKorea, "South Korea", "KR"), (.laos, "Laos", "LA"),
  (.australiaCapitalTerritory, "Australia Capital Territory", "AU"), (.macao, "Macao", "MO"),
  (.australiaNewSouthWales, "Australia New South Wales", "AU"), (.malaysia, "Malaysia", "MY"),
  (.australiaVictoria, "Australia Victoria", "AU"), (.maldives, "Maldives", "MV"),
  (.australiaQueensland, "Australia Queensland", "AU"), (.marshallIslands, "Marshall Islands", "MH"),
  (.australiaSouthAustralia, "Australia South Australia", "AU"), (.micronesia, "Micronesia", "FM"),
  (.australiaWesternAustralia, "Australia Western Australia", "AU"), (.myanmar, "Myanmar", "MM"),
  (.australiaTasmania, "Australia Tasmania", "AU"), (.nauru, "Nauru", "NR"),
  (.australiaNorthernTerritory, "Australia Northern Territory", "AU"), (.nepal, "Nepal", "NP"),
  (.bangladesh, "Bangladesh", "BD"), (.newZealand, "New Zealand", "NZ"), (.bhutan, "Bhutan", "BT"), (.pakistan, "Pakistan", "PK"),
  (.bruneiDarussalam, "Brunei Darussalam", "BN"), (.papuaNewGuinea, "Papua New Guinea", "PG"), (.cambodia, "Cambodia", "KH"),
  (.philippines, "Philippines", "PH"), (.china, "China", "CN"), (.samoa, "Samoa", "WS"), (.singapore, "Singapore", "SG"),
  (.solomonIslands, "Solomon Islands", "SB"), (.fiji, "Fiji", "FJ"), (.sriLanka, "Sri Lanka", "LK"), (.hongKong, "Hong Kong", "HK"),
  (.taiwan, "Taiwan", "TW"), (.india, "India", "IN"), (.thailand, "Thailand", "TH"), (.indonesia, "Indonesia", "ID"),
  (.tonga, "Tonga", "TO"), (.iran, "Iran", "IR"), (.vanuatu, "Vanuatu", "VU"), (.japan, "Japan", "JP"),
  (.vietnam, "Vietnam", "VN"), (.kiribati, "Kiribati", "KI"), (.northKorea, "North Korea", "KP"),
  (.brazilOrEquator, "Brazil/Equator", "--")]   -- shared allocation: BR and Ecuador ("Équateur")


/-- name ↦ ISO 3166-1 alpha-2 for the 220 real entries (association list keyed by the library's
spelling) -/
def iso3166 : List (String × String) := (countries.drop 1).map Prod.snd

/-- ISO code of the entity called `name`; `"!!"` (which no lookup ever returns) if the name is
not in the reference, so that an unknown name can never pass a check silently. For the driver;
the theorems compare row by row. -/
def isoOf (name : String) : String := (iso3166.lookup name).getD "!!"

/-- the row of enumerator / lookup argument `a`; arguments ≥ `countryCount` behave like "unknown" -/
def countryRow (a : Nat) : Country × String × String := countries.getD a (.unknown, "Unknown", "??")

/-- what `rdsparser_country_lookup_name` must return for argument `a` (0..255) -/
def expectedName (a : Nat) : Option String := some (countryRow a).2.1

/-- what `rdsparser_country_lookup_iso` must return for argument `a` (0..255) -/
def expectedIso (a : Nat) : Option String := some (countryRow a).2.2

/-- names by enumerator -/
def countryNames : List String := countries.map (·.2.1)

/-- groups of enumerators that denote parts of the same ISO 3166-1 country and may therefore
share its alpha-2 code -/
def aliasClasses : List (List Country) := [
  [.australiaCapitalTerritory, .australiaNewSouthWales, .australiaVictoria, .australiaQueensland,
   .australiaSouthAustralia, .australiaWesternAustralia, .australiaTasmania,
   .australiaNorthernTerritory]]

/-- do enumerators `i` and `j` denote the same country (equal, or in one alias class)? -/
def sameCountry (i j : Nat) : Bool :=
  i == j || aliasClasses.any (fun c =>
    (c.map Country.enumerator).contains i && (c.map Country.enumerator).contains j)

/-- numeric form of a well-formed alpha-2 code: `256·c₁ + c₂` for two capital letters, 0 for
anything else (in particular for the `"--"` and `"??"` placeholders) -/
def isoCode (s : String) : Nat :=
  match s.toList with
  | [a, b] => if 'A' ≤ a && a ≤ 'Z' && 'A' ≤ b && b ≤ 'Z' then 256 * a.toNat + b.toNat else 0
  | _ => 0

/-- a well-formed in-range result of the ISO lookup: two capital letters, or `"--"` -/
def isoShape (s : String) : Bool := isoCode s != 0 || s == "--"

/-! ## C11 — IEC 62106-4 country/area identification (ECC × PI country nibble) -/

/-- "not allocated" in `iecColumns` -/
abbrev na : Country := .unknown

/-- For each allocated extended country code, in ascending order: the owner of PI country nibble
1, 2, …, F (`na` = not allocated, or allocated to an area for which the library has no
enumerator: French Guiana A3/5, Zanzibar D2/D of the older editions). -/
def iecColumns : List (Nat × List Country) := [
  -- ITU region 2
  (0xA0, [ .usaOrViOrPr, .usaOrViOrPr, .usaOrViOrPr, .usaOrViOrPr, .usaOrViOrPr,
           .usaOrViOrPr, .usaOrViOrPr, .usaOrViOrPr, .usaOrViOrPr, .usaOrViOrPr,
           .usaOrViOrPr, na, .usaOrViOrPr, .usaOrViOrPr, na ]),
  (0xA1, [ na, na, na, na, na, na, na, na, na, na,
           .canada, .canada, .canada, .canada, .greenland ]),
  (0xA2, [ .anguilla, .antiguaAndBarbuda, .brazilOrEquator, .falklandIslands, .barbados,
           .belize, .caymanIslands, .costaRica, .cuba, .argentina,
           .brazil, .brazilOrBermuda, .brazilOrNetherlandsAntilles, .guadeloupe, .bahamas ]),
  (0xA3, [ .bolivia, .colombia, .jamaica, .martinique, na /- French Guiana -/,
           .paraguay, .nicaragua, na, .panama, .dominica,
           .dominicanRepublic, .chile, .grenada, .turksAndCaicosIslands, .guyana ]),
  (0xA4, [ .guatemala, .honduras, .aruba, na, .montserrat,
           .trinidadAndTobago, .peru, .suriname, .uruguay, .stKitts,
           .stLucia, .elSalvador, .haiti, .venezuela, .virginIslands ]),
  (0xA5, [ na, na, na, na, na, na, na, na, na, na,
           .mexico, .stVincent, .mexico, .mexico, .mexico ]),
  (0xA6, [ na, na, na, na, na, na, na, na, na, na,
           na, na, na, na, .stPierreAndMiquelon ]),
  -- Africa
  (0xD0, [ .cameroon, .centralAfricanRepublic, .djiboutia, .madagascar, .mali,
           .angola, .equatorialGuinea, .gabon, .guinea, .southAfrica,
           .burkinaFaso, .republicOfCongo, .togo, .benin, .malawi ]),
  (0xD1, [ .namibia, .liberia, .ghana, .mauritania, .saoTomeAndPrincipe,
           .capeVerde, .senegal, .gambia, .burundi, .ascensionIsland,
           .botswana, .comoros, .tanzania, .ethiopia, .nigeria ]),
  (0xD2, [ .sierraLeone, .zimbabwe, .mozambique, .uganda, .swaziland,
           .kenya, .somalia, .niger, .chad, .guineaBissau,
           .drCongo, .coteDIvoire, na /- Zanzibar in older editions -/, .zambia, .eritrea ]),
  (0xD3, [ na, na, .westernSahara, .cabinda, .rwanda,
           .lesotho, na, .seychelles, na, .mauritius,
           na, .sudan, na, na, na ]),
  (0xD4, [ na, na, na, na, na, na, na, na, na, .southSudan,
           na, na, na, na, na ]),
  -- European broadcasting area
  (0xE0, [ .germany, .algeria, .andorra, .israel, .italy,
           .belgium, .russia, .palestine, .albania, .austria,
           .hungary, .malta, .germany, na, .egypt ]),
  (0xE1, [ .greece, .cyprus, .sanMarino, .switzerland, .jordan,
           .finland, .luxembourg, .bulgaria, .denmark, .gibraltar,
           .iraq, .unitedKingdom, .libya, .romania, .france ]),
  (0xE2, [ .morocco, .czechia, .poland, .vatican, .slovakia,
           .syria, .tunisia, na, .liechtenstein, .iceland,
           .monaco, .lithuania, .serbia, .spain, .norway ]),
  -- E3/4, E4/3, E5/3: as in IEC 62106-4:2018 (see `legacyCells` for the older editions)
  (0xE3, [ .montenegro, .ireland, .turkey, na, .tajikistan,
           na, na, .netherlands, .latvia, .lebanon,
           .azerbaijan, .croatia, .kazakhstan, .sweden, .belarus ]),
  (0xE4, [ .moldova, .estonia, .macedonia, na, na,
           .ukraine, .kosovo, .portugal, .slovenia, .armenia,
           .uzbekistan, .georgia, na, .turkmenistan, .bosniaHerzegovina ]),
  (0xE5, [ na, na, .kyrgyzstan, na, na, na, na, na, na, na,
           na, na, na, na, na ]),
  -- Asia and the Pacific
  (0xF0, [ .australiaCapitalTerritory, .australiaNewSouthWales, .australiaVictoria,
           .australiaQueensland, .australiaSouthAustralia, .australiaWesternAustralia,
           .australiaTasmania, .australiaNorthernTerritory, .saudiArabia, .afghanistan,
           .myanmar, .china, .northKorea, .bahrein, .malaysia ]),
  (0xF1, [ .kiribati, .bhutan, .bangladesh, .pakistan, .fiji,
           .oman, .nauru, .iran, .newZealand, .solomonIslands,
           .bruneiDarussalam, .sriLanka, .taiwan, .southKorea, .hongKong ]),
  (0xF2, [ .kuwait, .qatar, .cambodia, .samoa, .india,
           .macao, .vietnam, .philippines, .japan, .singapore,
           .maldives, .indonesia, .unitedArabEmirates, .nepal, .vanuatu ]),
  (0xF3, [ .laos, .thailand, .tonga, na, na,
           na, na, .china, .papuaNewGuinea, na,
           .yemen, na, na, .micronesia, .mongolia ]),
  (0xF4, [ na, na, na, na, na, na, na, na, .china, na,
           .marshallIslands, na, na, na, na ])]


/-- the 23 allocated ECC bytes -/
def eccCodes : List Nat := iecColumns.map Prod.fst

/-- one row of the 256-column table (PI country nibble `k+1`), built left to right: zeros up to the
next allocated ECC byte, then that column's entry. Linear in the row length. -/
def iecRowFrom (k : Nat) : List (Nat × List Country) → Nat → List Nat
  | [], pos => List.replicate (256 - pos) 0
  | (e, col) :: rest, pos =>
    List.replicate (e - pos) 0 ++ (col.getD k .unknown).enumerator :: iecRowFrom k rest (e + 1)

/-- IEC 62106-4 in the shape of `Generated.eccCountry`: row 0 = PI unknown, row 1 = nibble 0 (not a
valid country code), row n+1 = PI country nibble n; 256 ECC columns -/
def iecTable : List (List Nat) :=
  List.replicate 256 0 :: List.replicate 256 0 :: (List.range 15).map (fun k => iecRowFrom k iecColumns 0)

/-- country enumerator for PI country nibble `nib` (0..15) and ECC byte `ecc` -/
def iec (nib ecc : Nat) : Nat := (iecTable.getD (nib + 1) []).getD ecc 0

/-- Cells in which EN 50067:1998 / IEC 62106:2009 / IEC 62106:2015 (Annex D) differ from the
IEC 62106-4:2018 layout used above: (nibble, ECC, owner in the older editions). -/
def legacyCells : List (Nat × Nat × Country) :=
  [(4, 0xE3, .macedonia), (3, 0xE4, .kyrgyzstan), (3, 0xE5, .unknown)]

/-! ## C18 — programme types -/

/-- IEC 62106 Annex F, PTY 0..31: description -/
def ptyRdsName : List String := [
  "No programme type or undefined", "News", "Current affairs", "Information",
  "Sport", "Education", "Drama", "Culture",
  "Science", "Varied", "Pop music", "Rock music",
  "Easy listening music", "Light classical", "Serious classical", "Other music",
  "Weather", "Finance", "Children's programmes", "Social affairs",
  "Religion", "Phone in", "Travel", "Leisure",
  "Jazz music", "Country music", "National music", "Oldies music",
  "Folk music", "Documentary", "Alarm test", "Alarm"]

/-- IEC 62106 Annex F: 8-character display -/
def ptyRdsShort : List String := [
  "", "News", "Affairs", "Info",
  "Sport", "Educate", "Drama", "Culture",
  "Science", "Varied", "Pop M", "Rock M",
  "Easy M", "Light M", "Classics", "Other M",
  "Weather", "Finance", "Children", "Social",
  "Religion", "Phone in", "Travel", "Leisure",
  "Jazz", "Country", "Nation M", "Oldies",
  "Folk M", "Document", "TEST", "Alarm !"]

/-- IEC 62106 Annex F: 16-character display -/
def ptyRdsLong : List String := [
  "", "News", "Current affairs", "Information",
  "Sport", "Education", "Drama", "Cultures",
  "Science", "Varied speech", "Pop music", "Rock music",
  "Easy listening", "Light classics m", "Serious classics", "Other music",
  "Weather & metr", "Finance", "Children's progs", "Social affairs",
  "Religion", "Phone in", "Travel & touring", "Leisure & hobby",
  "Jazz music", "Country music", "National music", "Oldies music",
  "Folk music", "Documentary", "Alarm test", "Alarm - Alarm !"]

/-- NRSC-4 (RBDS) Annex F, PTY 0..31: description -/
def ptyRbdsName : List String := [
  "No program type or undefined", "News", "Information", "Sports",
  "Talk", "Rock", "Classic Rock", "Adult Hits",
  "Soft Rock", "Top 40", "Country", "Oldies",
  "Soft", "Nostalgia", "Jazz", "Classical",
  "Rhythm and Blues", "Soft Rhythm and Blues", "Foreign Language", "Religious Music",
  "Religious Talk", "Personality", "Public", "College",
  "Spanish Talk", "Spanish Music", "Hip-Hop", "Unassigned",
  "Unassigned", "Weather", "Emergency Test", "Emergency"]

/-- NRSC-4 Annex F: 8-character display -/
def ptyRbdsShort : List String := [
  "None", "News", "Inform", "Sports",
  "Talk", "Rock", "Cls Rock", "Adlt Hit",
  "Soft Rck", "Top 40", "Country", "Oldies",
  "Soft", "Nostalga", "Jazz", "Classicl",
  "R & B", "Soft R&B", "Language", "Rel Musc",
  "Rel Talk", "Persnlty", "Public", "College",
  "Habl Esp", "Musc Esp", "Hip hop", "",
  "", "Weather", "Test", "ALERT !"]

/-- NRSC-4 Annex F: 16-character display -/
def ptyRbdsLong : List String := [
  "None", "News", "Information", "Sports",
  "Talk", "Rock", "Classic Rock", "Adult Hits",
  "Soft Rock", "Top 40", "Country", "Oldies",
  "Soft", "Nostalgia", "Jazz", "Classical",
  "Rhythm and Blues", "Soft R & B", "Foreign Language", "Religious Music",
  "Religious Talk", "Personality", "Public", "College",
  "Hablar Espanol", "Musica Espanol", "Hip hop", "",
  "", "Weather", "Emergency Test", "ALERT! ALERT!"]

inductive PtyTbl | name | short | long
deriving DecidableEq, Repr

/-- the reference PTY table: which text, RDS (`false`) or RBDS (`true`) -/
def pty : PtyTbl → Bool → List String
  | .name, false => ptyRdsName | .short, false => ptyRdsShort | .long, false => ptyRdsLong
  | .name, true => ptyRbdsName | .short, true => ptyRbdsShort | .long, true => ptyRbdsLong

/-- display width limit of a PTY text (none for the description) -/
def ptyWidth : PtyTbl → Option Nat
  | .name => none | .short => some 8 | .long => some 16

/-- what `rdsparser_pty_lookup_*` must return for argument index `a` (argument mod 256) -/
def ptyExpected (t : PtyTbl) (rbds : Bool) (a : Nat) : Option String :=
  some (if a < 32 then (pty t rbds).getD a "!!" else "Unknown")

end RDS.Reference
