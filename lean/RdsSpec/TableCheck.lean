import RdsModel.Generated
import RdsSpec.Reference
/-!
# RdsSpec.TableCheck — executable comparison of `Generated.*` with `Reference.*`

Two kinds of functions:

* `…OkAt` — closed `Bool` functions of the cell address, for the driver: `deviations256 g0OkAt`,
  `eccDeviations eccOkAt`, … list the deviating cells of any future `Generated.lean`;
* whole-table forms (`g0Expected`, `diffIdx`, `isoClashes`, …) that walk each list once; the
  theorems of `RdsProofs/TableProofs.lean` evaluate these in the kernel (indexing a 256-element
  list per cell is quadratic and far too slow there).
-/
namespace RDS.TableCheck
open RDS

/-- indices (counted from `i`) at which the two lists differ; a length mismatch is reported at the
index where the shorter list ends -/
def diffIdx {α : Type} [BEq α] : List α → List α → Nat → List Nat
  | a :: as, b :: bs, i => if a == b then diffIdx as bs (i + 1) else i :: diffIdx as bs (i + 1)
  | [], [], _ => []
  | _, _, i => [i]

/-! ### C02 / C20: character tables -/

def storedExpected : List Bool := (List.range 256).map Reference.stored
def g0Expected : List Nat := (List.range 256).map Reference.g0Value
def narrowExpected : List Nat := (List.range 256).map Reference.narrowValue

/-- default build, byte `b` (0..255): stored-flag and stored value are as the reference says -/
def g0OkAt (b : Nat) : Bool :=
  Generated.g0Stored.getD b false == Reference.stored b &&
  Generated.g0.getD b 0 == Reference.g0Value b

/-- `RDSPARSER_DISABLE_UNICODE` build, byte `b` -/
def narrowOkAt (b : Nat) : Bool :=
  Generated.narrowStored.getD b false == Reference.stored b &&
  Generated.narrow.getD b 0 == Reference.narrowValue b

/-! ### C11: ECC × PI nibble -/

/-- cell of the extracted table: row 0 = PI unknown, row n+1 = PI country nibble n -/
def eccCell (row e : Nat) : Nat := (Generated.eccCountry.getD row []).getD e 0

/-- the reference value of the same cell -/
def eccRef (row e : Nat) : Nat := (Reference.iecTable.getD row []).getD e 0

def eccOkAt (row e : Nat) : Bool := eccCell row e == eccRef row e

/-- every cell is a valid enumerator -/
def eccRangeOkAt (row e : Nat) : Bool := eccCell row e < Generated.countryCount

/-- "unknown" wherever the standard allocates nothing: PI unknown, nibble 0, ECC not one of the
23 allocated bytes -/
def eccUnknownOkAt (row e : Nat) : Bool :=
  eccCell row e == 0 || (1 < row && Reference.eccCodes.contains e)

/-- whole-table form of `eccRangeOkAt` -/
def eccRangeOk (t : List (List Nat)) : Bool := t.all (fun r => r.all (fun x => x < Generated.countryCount))

/-- whole-table form of `eccUnknownOkAt`: rows 0 and 1 are zero; elsewhere a non-zero cell sits in
an allocated ECC column -/
def eccUnknownOk (t : List (List Nat)) : Bool :=
  (t.take 2).all (fun r => r.all (· == 0)) &&
  t.all (fun r => r.zipIdx.all (fun xe => xe.1 == 0 || Reference.eccCodes.contains xe.2))

/-! ### C18: PTY -/

def genPty : Reference.PtyTbl → Bool → List (Option String)
  | .name, false => Generated.ptyNameRds | .short, false => Generated.ptyShortRds
  | .long, false => Generated.ptyLongRds
  | .name, true => Generated.ptyNameRbds | .short, true => Generated.ptyShortRbds
  | .long, true => Generated.ptyLongRbds

def ptyExpectedList (t : Reference.PtyTbl) (rbds : Bool) : List (Option String) :=
  (List.range 256).map (Reference.ptyExpected t rbds)

/-- argument index `a` (argument mod 256: 0..127, then −128..−1) -/
def ptyOkAt (t : Reference.PtyTbl) (rbds : Bool) (a : Nat) : Bool :=
  (genPty t rbds).getD a none == Reference.ptyExpected t rbds a

def widthOk (w : Nat) : Option String → Bool
  | some s => s.length ≤ w
  | none => false

/-- the text returned for `a` fits the display width of its table -/
def ptyWidthOkAt (t : Reference.PtyTbl) (rbds : Bool) (a : Nat) : Bool :=
  match Reference.ptyWidth t with
  | some w => widthOk w ((genPty t rbds).getD a none)
  | none => true

/-! ### C18: countries -/

def inRange (a : Nat) : Bool := 0 < a && a < Generated.countryCount

def nameAt (a : Nat) : Option String := Generated.countryName.getD a none
def isoAt (a : Nat) : Option String := Generated.countryIso.getD a none

def namesExpected : List (Option String) := (List.range 256).map Reference.expectedName
def isoExpected : List (Option String) := (List.range 256).map Reference.expectedIso

def nameOkAt (a : Nat) : Bool := nameAt a == Reference.expectedName a

/-- out of range: `"??"`; in range: the ISO 3166-1 code (per `Reference.iso3166`) of the NAME that
the name lookup returns for the same argument -/
def isoOkAt (a : Nat) : Bool :=
  if inRange a then
    match nameAt a with
    | some n => isoAt a == some (Reference.isoOf n)
    | none => false
  else isoAt a == some "??"

/-- row-wise form: the code of the reference row of enumerator `a` -/
def isoRowOkAt (a : Nat) : Bool := isoAt a == Reference.expectedIso a

def shapeOk : Option String → Bool
  | some s => Reference.isoShape s
  | none => false

/-- in range: two capital letters or `"--"` -/
def isoShapeOkAt (a : Nat) : Bool := !inRange a || shapeOk (isoAt a)

/-- numeric code of a lookup result (0: placeholder, malformed or NULL) -/
def codeOf : Option String → Nat
  | some s => Reference.isoCode s
  | none => 0

/-- two in-range arguments with the same proper code name the same country -/
def isoDistinctOkAt (i j : Nat) : Bool :=
  !(inRange i && inRange j && codeOf (isoAt i) != 0 && codeOf (isoAt i) == codeOf (isoAt j)) ||
    Reference.sameCountry i j

/-- `j`s (counted from `j`) in `cs` carrying the proper code `c` of argument `i` without naming the
same country -/
def clashesWith (i c : Nat) : List Nat → Nat → List (Nat × Nat)
  | [], _ => []
  | d :: ds, j =>
    if c != 0 && c == d && !Reference.sameCountry i j then (i, j) :: clashesWith i c ds (j + 1)
    else clashesWith i c ds (j + 1)

/-- all pairs i < j (counted from `i`) of a list of numeric codes that share a proper code without
naming the same country -/
def clashes : List Nat → Nat → List (Nat × Nat)
  | [], _ => []
  | c :: cs, i => clashesWith i c cs (i + 1) ++ clashes cs (i + 1)

/-- whole-table form of `isoDistinctOkAt` over a table of lookup results: argument 0 and
arguments ≥ `countryCount` are out of range -/
def isoClashes (t : List (Option String)) : List (Nat × Nat) :=
  clashes (((t.take Generated.countryCount).drop 1).map codeOf) 1

/-! ### deviation lists (for `diagnose`) -/

def deviations256 (ok : Nat → Bool) : List Nat := (List.range 256).filter (fun a => !ok a)

/-- all (row, ecc) cells failing `ok` -/
def eccDeviations (ok : Nat → Nat → Bool) : List (Nat × Nat) :=
  (List.range 17).flatMap fun row => ((List.range 256).filter (fun e => !ok row e)).map (row, ·)

/-- all pairs i < j failing `isoDistinctOkAt` -/
def isoDistinctDeviations : List (Nat × Nat) :=
  (List.range 256).flatMap fun i =>
    ((List.range 256).filter (fun j => i < j && !isoDistinctOkAt i j)).map (i, ·)

end RDS.TableCheck
