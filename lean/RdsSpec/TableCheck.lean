import RdsModel.Generated
import RdsSpec.Reference
/-!
# RdsSpec.TableCheck — executable cell-by-cell comparison of `Generated.*` with `Reference.*`

Each `…OkAt` is a closed `Bool` function of the cell address, so that
* the table theorems of `RdsProofs/TableProofs.lean` are `(List.range n).all …OkAt = true`
  (`decide +kernel`) lifted to `∀`, and
* a driver can list the deviating cells of any future `Generated.lean`
  (`deviations256 g0OkAt`, `eccDeviations`, …).
-/
namespace RDS.TableCheck
open RDS

/-! ### C02 / C20: character tables -/

/-- default build, byte `b` (0..255): stored-flag and stored value are as the reference says -/
def g0OkAt (b : Nat) : Bool :=
  Generated.g0Stored.getD b false == Reference.stored b &&
  Generated.g0.getD b 0 == Reference.g0Value b

/-- `RDSPARSER_DISABLE_UNICODE` build, byte `b` -/
def narrowOkAt (b : Nat) : Bool :=
  Generated.narrowStored.getD b false == Reference.stored b &&
  Generated.narrow.getD b 0 == Reference.narrowValue b

/-! ### C11: ECC × PI nibble -/

/-- cell of the extracted table: row 0 = PI unknown, row n+1 = PI country nibble n -/
def eccCell (row e : Nat) : Nat := (Generated.eccCountry.getD row []).getD e 0

/-- the reference value of the same cell -/
def eccRef (row e : Nat) : Nat := if row == 0 then 0 else Reference.iec (row - 1) e

def eccOkAt (row e : Nat) : Bool := eccCell row e == eccRef row e

/-- every cell is a valid enumerator -/
def eccRangeOkAt (row e : Nat) : Bool := eccCell row e < Generated.countryCount

/-- "unknown" wherever the standard allocates nothing: PI unknown, nibble 0, ECC not one of the
23 allocated bytes -/
def eccUnknownOkAt (row e : Nat) : Bool :=
  !(row ≤ 1 || !Reference.eccCodes.contains e) || eccCell row e == 0

/-! ### C18: PTY -/

def genPty : Reference.PtyTbl → Bool → List (Option String)
  | .name, false => Generated.ptyNameRds | .short, false => Generated.ptyShortRds
  | .long, false => Generated.ptyLongRds
  | .name, true => Generated.ptyNameRbds | .short, true => Generated.ptyShortRbds
  | .long, true => Generated.ptyLongRbds

/-- argument index `a` (argument mod 256: 0..127, then −128..−1) -/
def ptyOkAt (t : Reference.PtyTbl) (rbds : Bool) (a : Nat) : Bool :=
  let r := (genPty t rbds).getD a none
  r.isSome && r == Reference.ptyExpected t rbds a

/-- the text returned for `a` fits the display width of its table -/
def ptyWidthOkAt (t : Reference.PtyTbl) (rbds : Bool) (a : Nat) : Bool :=
  match Reference.ptyWidth t, (genPty t rbds).getD a none with
  | some w, some s => s.length ≤ w
  | some _, none => false
  | none, _ => true

/-! ### C18: countries -/

def inRange (a : Nat) : Bool := 0 < a && a < Generated.countryCount

def nameAt (a : Nat) : Option String := Generated.countryName.getD a none
def isoAt (a : Nat) : Option String := Generated.countryIso.getD a none

def nameOkAt (a : Nat) : Bool :=
  nameAt a == some (if inRange a then Reference.countryNames.getD a "!!" else "Unknown")

/-- out of range: `"??"`; in range: the ISO 3166-1 code (per `Reference.iso3166`) of the NAME that
the name lookup returns for the same argument -/
def isoOkAt (a : Nat) : Bool :=
  if inRange a then
    match nameAt a with
    | some n => isoAt a == some (Reference.isoOf n)
    | none => false
  else isoAt a == some "??"

/-- in range: two capital letters or `"--"` -/
def isoShapeOkAt (a : Nat) : Bool :=
  !inRange a || (match isoAt a with
    | some s => s.length == 2 && Reference.isoShape s
    | none => false)

/-- two in-range arguments with the same code other than `"--"` name the same country -/
def isoDistinctOkAt (i j : Nat) : Bool :=
  !(inRange i && inRange j && isoAt i == isoAt j && isoAt i != some "--") ||
    (match nameAt i, nameAt j with
    | some a, some b => Reference.sameCountry a b
    | _, _ => false)

/-! ### deviation lists (for `diagnose` and the `…_deviations` theorems) -/

def deviations256 (ok : Nat → Bool) : List Nat := (List.range 256).filter (fun a => !ok a)

/-- all (row, ecc) cells failing `ok` -/
def eccDeviations (ok : Nat → Nat → Bool) : List (Nat × Nat) :=
  (List.range 17).flatMap fun row => ((List.range 256).filter (fun e => !ok row e)).map (row, ·)

/-- all pairs i < j failing `isoDistinctOkAt` -/
def isoDistinctDeviations : List (Nat × Nat) :=
  (List.range 256).flatMap fun i =>
    ((List.range 256).filter (fun j => i < j && !isoDistinctOkAt i j)).map (i, ·)

end RDS.TableCheck
