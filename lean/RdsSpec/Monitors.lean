import RdsModel
import RdsSpec.Trace
/-!
# RdsSpec.Monitors — the properties C01…C17 as executable predicates over observations

`Mon` is an abstract reference machine: it remembers, of the history of one parser
instance, only what the properties talk about (last reception per field, reception counts
per AF code, last-written settings, registered observers, the RT flag last seen). It never
looks at a parser `State`; it reads the operation and the getter-visible `Obs` before/after.

`chkCxx` are the per-call predicates. The theorems in `RdsProps/` state that they hold for
every call of every op list on the model; the driver evaluates the *same* functions on the
trace of the real library (the "monitor"), which is how a concrete failing input is found.
-/
namespace RDS

/-- constants of the compiled library that the predicates mention -/
structure Tabs where
  cfg : Cfg
  countryCount : Nat

/-- one API call on one instance as an observer sees it -/
structure StepRec where
  op : Op
  before : Obs
  after : Obs
  evs : List EvObs
  ret : Bool
deriving Repr

/-- the group a call delivers, if any (`parse_string` input decoded by the C14 rule) -/
def Op.group? : Op → Option Group
  | .parse g => some g
  | .parseString (some b) => utilsConvert b
  | _ => none

/-- abstract buffered field: last reception since reset and the value the getter must show -/
structure AFld where
  last : Option Int
  vis : Int
deriving DecidableEq, Repr

/-- a reception of value `v`: normal mode shows it at once; extended check shows it only if
the previous reception carried the same value -/
def AFld.recv (ext : Bool) (f : AFld) (v : Int) : AFld :=
  if ext then { last := some v, vis := if f.last = some v then v else f.vis }
  else { last := some v, vis := v }

structure Mon where
  /-- extended check as last written -/
  ext : Bool
  /-- the current mode has been in force for every reception since the last reset -/
  clean : Bool
  pi : AFld
  pty : AFld
  tp : AFld
  ta : AFld
  ms : AFld
  ecc : AFld
  country : AFld
  /-- receptions per AF code since the last reset -/
  afCount : List Nat
  /-- settings as last written (C17) -/
  set : Settings
  /-- registered callbacks and user data as last written (C15) -/
  cbs : List Bool
  ud : Nat
  /-- A/B flag of the most recent type-2 group with error-free block B since reset; -1 = none -/
  lastFlag : Int
  /-- group delivered by the immediately preceding call on this instance, if it was a parse -/
  prevGroup : Option Group
deriving DecidableEq, Repr

def Mon.init : Mon :=
  { ext := false, clean := true,
    pi := ⟨none, -1⟩, pty := ⟨none, -1⟩, tp := ⟨none, -1⟩, ta := ⟨none, -1⟩, ms := ⟨none, -1⟩,
    ecc := ⟨none, -1⟩, country := ⟨none, 0⟩,
    afCount := List.replicate afBits 0, set := .init, cbs := List.replicate 12 false, ud := 0,
    lastFlag := -1, prevGroup := none }

/-- `rdsparser_clear`: history forgotten; settings and observers kept -/
def Mon.reset (m : Mon) : Mon :=
  { Mon.init with ext := m.ext, set := m.set, cbs := m.cbs, ud := m.ud }

def Mon.afRecv (m : Mon) (v : Nat) : Mon :=
  if afValid v then { m with afCount := m.afCount.set v (m.afCount.getD v 0 + 1) } else m

/-- country presented by a 1A variant-0 group: table entry for (nibble of the PI the getter
shows at that moment, ECC) -/
def eccLookupT (cfg : Cfg) (pi : Int) (ecc : Nat) : Int := eccLookup cfg pi ecc

def Mon.group (cfg : Cfg) (m : Mon) (g : Group) : Mon :=
  let m := if g.ea = 0 then { m with pi := m.pi.recv m.ext g.a } else m
  let m := if g.eb = 0 then
      { m with pty := m.pty.recv m.ext (g.b / 32 % 32 : Nat), tp := m.tp.recv m.ext (g.b / 1024 % 2 : Nat) }
    else m
  let m := if g.type = 2 && g.eb = 0 then { m with lastFlag := (g.b / 16 % 2 : Nat) } else m
  if g.type = 0 then
    let m := if g.eb = 0 then
        { m with ta := m.ta.recv m.ext (g.b / 16 % 2 : Nat), ms := m.ms.recv m.ext (g.b / 8 % 2 : Nat) }
      else m
    if !g.versionB && g.eb = 0 && g.ec = 0 && g.c / 256 % 256 != 250 then
      (m.afRecv (g.c / 256 % 256)).afRecv (g.c % 256)
    else m
  else if g.type = 1 && !g.versionB && g.eb = 0 && g.ec = 0 && g.c / 4096 % 8 = 0 then
    let m := { m with ecc := m.ecc.recv m.ext (g.c % 256 : Nat) }
    { m with country := m.country.recv m.ext (eccLookupT cfg m.pi.vis (g.c % 256)) }
  else m

/-- has anything been received since the last reset? -/
def Mon.anyRecv (m : Mon) : Bool :=
  m.pi.last.isSome || m.pty.last.isSome || m.tp.last.isSome || m.ta.last.isSome ||
  m.ms.last.isSome || m.ecc.last.isSome || m.country.last.isSome || m.afCount.any (· > 0)

/-- absorb one call into the history summary -/
def Mon.step (cfg : Cfg) (m : Mon) (op : Op) : Mon :=
  let m1 := match op with
    | .init => Mon.init
    | .clear => m.reset
    | .setExt v =>
      { m with ext := v, clean := m.clean && (v = m.ext || !m.anyRecv), set := { m.set with ext := v } }
    | .setCorr t k v => { m with set := m.set.setCorr t k v }
    | .setProg t v => { m with set := m.set.setProg t v }
    | .register c on => { m with cbs := m.cbs.set c.idx on }
    | .userData n => { m with ud := n }
    | .getters => m
    | .parse _ | .parseString _ =>
      match op.group? with
      | some g => m.group cfg g
      | none => m
  { m1 with prevGroup := match op with | .parse _ | .parseString _ => op.group? | _ => none }

/-- AF code `v` must be listed -/
def Mon.afListed (m : Mon) (v : Nat) : Bool :=
  if m.ext then m.afCount.getD v 0 ≥ 2 else m.afCount.getD v 0 ≥ 1

/-! ## C01 / C09 / C10 / C11: buffered fields against the reception history

`m'` is the monitor state *after* absorbing the call. -/

def chkC01 (m' : Mon) (r : StepRec) : Bool :=
  !(m'.clean && !m'.ext) ||
  (r.after.sc.pi == m'.pi.vis && r.after.sc.pty == m'.pty.vis && r.after.sc.tp == m'.tp.vis &&
   r.after.sc.ta == m'.ta.vis && r.after.sc.ms == m'.ms.vis)

def afMatches (m' : Mon) (af : List Bool) : Bool :=
  af.length == afBits && m'.afCount.length == afBits &&
  (List.zipWith (fun (b : Bool) (c : Nat) => b == (if m'.ext then decide (c ≥ 2) else decide (c ≥ 1))) af m'.afCount).all id

def chkC09 (m' : Mon) (r : StepRec) : Bool :=
  !(m'.clean && m'.ext) ||
  (r.after.sc.pi == m'.pi.vis && r.after.sc.pty == m'.pty.vis && r.after.sc.tp == m'.tp.vis &&
   r.after.sc.ta == m'.ta.vis && r.after.sc.ms == m'.ms.vis &&
   r.after.sc.ecc == m'.ecc.vis && r.after.sc.country == m'.country.vis &&
   afMatches m' r.after.sc.af)

def chkC10 (m' : Mon) (r : StepRec) : Bool :=
  !m'.clean || afMatches m' r.after.sc.af

def chkC11 (tb : Tabs) (m' : Mon) (r : StepRec) : Bool :=
  decide (r.after.sc.country < tb.countryCount) && decide (0 ≤ r.after.sc.country) &&
  (!m'.clean || (r.after.sc.ecc == m'.ecc.vis && r.after.sc.country == m'.country.vis))

/-! ## "received is shown": normal mode, whatever the history

C01, C10 and C11 say what the getters show in terms of what was *received since the last reset*; their closed forms above
are stated for histories in which the check mode did not change (`clean`). The clauses below hold for every history — also
when the extended check was on earlier and has been switched off since: with the extended check off at the moment of the
call, every value a group delivers through error-free blocks is what the getters show after the call, and both codes of
an accepted AF pair are on the list (or are not FM codes). -/

def afCondM (g : Group) : Bool := !g.versionB && g.eb = 0 && g.ec = 0 && g.c / 256 % 256 != 250
def eccCondM (g : Group) : Bool := !g.versionB && g.eb = 0 && g.ec = 0 && g.c / 4096 % 8 = 0
def afShown (af : List Bool) (v : Nat) : Bool := afGet af v || !afValid v

def chkNormalScalars (r : StepRec) : Bool :=
  match r.op.group? with
  | none => true
  | some g =>
    r.before.set.ext ||
    ((g.ea != 0 || r.after.sc.pi == (g.a : Int)) &&
     (g.eb != 0 || (r.after.sc.pty == ((g.b / 32 % 32 : Nat) : Int) && r.after.sc.tp == ((g.b / 1024 % 2 : Nat) : Int))) &&
     (!(g.type = 0 && g.eb = 0) ||
        (r.after.sc.ta == ((g.b / 16 % 2 : Nat) : Int) && r.after.sc.ms == ((g.b / 8 % 2 : Nat) : Int))))

def chkNormalAf (r : StepRec) : Bool :=
  match r.op.group? with
  | none => true
  | some g =>
    r.before.set.ext || !(g.type = 0 && afCondM g) ||
      (afShown r.after.sc.af (g.c / 256 % 256) && afShown r.after.sc.af (g.c % 256))

def chkNormalEcc (r : StepRec) : Bool :=
  match r.op.group? with
  | none => true
  | some g =>
    r.before.set.ext || !(g.type = 1 && eccCondM g) || r.after.sc.ecc == ((g.c % 256 : Nat) : Int)

/-! ## C17: settings -/
/-- the three setters of the settings C17 speaks about -/
def Op.isSetter : Op → Bool
  | .setExt _ | .setCorr _ _ _ | .setProg _ _ => true
  | _ => false

def chkC17 (m' : Mon) (r : StepRec) : Bool :=
  r.after.set == m'.set &&
  -- "writing one key never changes … any decoded data": a setter leaves every getter-visible value other than the settings
  -- as it was and fires no callback
  (!r.op.isSetter || (({ r.after with set := r.before.set } : Obs) == r.before && r.evs.isEmpty))

/-! ## C02 / C06 / C08: every cell of every text after a call -/

/-- the closed form of C06 for one addressed cell -/
def cellSpec (cfg : Cfg) (info data : Nat) (prog : Bool) (old : Cell) (b eb ed : Nat) : Cell :=
  let lvl := if eb = 0 && ed = 0 then 0 else 2 * eb + 3 * ed - 1
  let accept := eb ≤ info && ed ≤ data && (!prog || lvl ≤ old.lvl) &&
    (b != 0x0D || (eb = 0 && ed = 0)) && (b = 0x0D || 0x20 ≤ b) && (b < 0x7F || (eb = 0 && ed = 0)) &&
    !(conv cfg b = old.ch && old.lvl ≤ lvl)
  if accept then ⟨conv cfg b, lvl⟩ else old

/-- addressed cells of a group: (text 0=PS 1=RT-A 2=RT-B 3=PTYN, index, byte, error level of
the carrying block) — the table of C02 -/
def addressed (g : Group) : List (Nat × Nat × Nat × Nat) :=
  let hi (w : Nat) := w / 256 % 256
  let lo (w : Nat) := w % 256
  if g.type = 0 then
    let p := 2 * (g.b % 4); [(0, p, hi g.d, g.ed), (0, p + 1, lo g.d, g.ed)]
  else if g.type = 2 then
    let t := 1 + g.b / 16 % 2
    if g.versionB then
      let p := 2 * (g.b % 16); [(t, p, hi g.d, g.ed), (t, p + 1, lo g.d, g.ed)]
    else
      let p := 4 * (g.b % 16)
      [(t, p, hi g.c, g.ec), (t, p + 1, lo g.c, g.ec), (t, p + 2, hi g.d, g.ed), (t, p + 3, lo g.d, g.ed)]
  else if g.type = 10 && !g.versionB then
    let p := 4 * (g.b % 2)
    [(3, p, hi g.c, g.ec), (3, p + 1, lo g.c, g.ec), (3, p + 2, hi g.d, g.ed), (3, p + 3, lo g.d, g.ed)]
  else []

def textIdOf : Nat → TextId | 0 => .ps | 1 => .rt | 2 => .rt | _ => .ptyn

/-- C08: an error-free type-2 group shows a flag different from the last one seen and the
buffer of the new flag holds something: that buffer is emptied first -/
def switchDiscard (m : Mon) (before : Obs) (g : Group) : Bool :=
  g.type = 2 && g.eb = 0 && m.lastFlag != -1 && ((g.b / 16 % 2 : Nat) : Int) != m.lastFlag &&
  getAvailable (before.text (1 + g.b / 16 % 2)).cells

/-- C08: block B has errors and the flag differs from the last one seen: ignored for RT -/
def rtNoisy (m : Mon) (g : Group) : Bool :=
  g.type = 2 && g.eb != 0 && m.lastFlag != -1 && ((g.b / 16 % 2 : Nat) : Int) != m.lastFlag

/-- expected cells of text `t` after delivering `g` (`m` = history before the call) -/
def expectedText (cfg : Cfg) (m : Mon) (before : Obs) (g : Group) (t : Nat) : Text :=
  let old0 := (before.text t).cells
  let old := if switchDiscard m before g && t = 1 + g.b / 16 % 2 then old0.cleared else old0
  let addr := if rtNoisy m g then [] else (addressed g).filter (fun a => a.1 = t)
  let set := before.set
  (List.range old.length).map fun i =>
    match addr.find? (fun a => a.2.1 = i) with
    | some (_, _, b, ex) =>
      cellSpec cfg (set.corr (textIdOf t) .info) (set.corr (textIdOf t) .data)
        (set.prog (textIdOf t)) (old.getD i blank) b g.eb ex
    | none => old.getD i blank

/-- C02 + C06 + C08: after a delivered group all four texts are exactly the expected ones;
after any other successful call except `init`/`clear` they are unchanged -/
def chkCells (cfg : Cfg) (m : Mon) (r : StepRec) : Bool :=
  match r.op with
  | .init | .clear => true
  | _ =>
    match r.op.group? with
    | some g => (List.range 4).all fun t => (r.after.text t).cells == expectedText cfg m r.before g t
    | none => (List.range 4).all fun t => (r.after.text t).cells == (r.before.text t).cells

/-! ### the three properties that `chkCells` combines, each in its own strength

`chkCells` is the complete closed form (it is what the model is proved to satisfy). A change that breaks one of
C02 / C06 / C07 / C08 need not break the others, so each property gets its own predicate that demands exactly
what its text states; all of them are consequences of `chkCells` (RdsProofs/RefineProofs.lean). -/

/-- iterate a per-cell relation over every cell of every text after a delivered group.
`rel t old new addr` where `old` is the cell before the call (after the C08 switch-discard, which C02 and C06
explicitly leave to C08) and `addr = some (byte, error level of the carrying block)` if the group addresses the cell. -/
def cellsBy (m : Mon) (r : StepRec) (g : Group) (rel : Nat → Cell → Cell → Option (Nat × Nat) → Bool) : Bool :=
  (List.range 4).all fun t =>
    let old0 := (r.before.text t).cells
    let old := if switchDiscard m r.before g && t = 1 + g.b / 16 % 2 then old0.cleared else old0
    let addr := (addressed g).filter (fun a => a.1 = t)
    (r.after.text t).cells.length == old.length &&
    (List.range old.length).all fun i =>
      rel t (old.getD i blank) ((r.after.text t).cells.getD i blank)
        ((addr.find? (fun a => a.2.1 = i)).map (fun a => (a.2.2.1, a.2.2.2)))

/-- C02: a non-addressed cell never changes; an addressed cell either keeps its content or holds the table image
of the received byte; with error-free blocks B and carrying block it holds exactly: end-of-text marker for 0x0D,
old content for control codes below 0x20, otherwise the table image at level 0 -/
def relC02 (cfg : Cfg) (eb : Nat) (_t : Nat) (old new : Cell) (addr : Option (Nat × Nat)) : Bool :=
  match addr with
  | none => new == old
  | some (b, ex) =>
    if eb = 0 && ex = 0 then
      new == (if b = 0x0D then ⟨0, 0⟩ else if b < 0x20 then old else ⟨conv cfg b, 0⟩)
    else new == old || new.ch == conv cfg b

def chkC02 (cfg : Cfg) (m : Mon) (r : StepRec) : Bool :=
  match r.op with
  | .init | .clear => true
  | _ =>
    match r.op.group? with
    | some g => cellsBy m r g (relC02 cfg g.eb)
    | none => (List.range 4).all fun t => (r.after.text t).cells == (r.before.text t).cells

/-- C06: an addressed cell changes only if eB ≤ info and eX ≤ data; a changed cell carries level 0 when both are
error-free and 2·eB + 3·eX − 1 otherwise; bytes ≥ 0x7F and the end-of-text marker are taken only from error-free
blocks; identical data with an equal or worse level is ignored; and, progressive correction aside (C07), a
reception passing all these rules IS taken -/
def relC06 (cfg : Cfg) (set : Settings) (eb : Nat) (t : Nat) (old new : Cell) (addr : Option (Nat × Nat)) : Bool :=
  match addr with
  | none => true
  | some (b, ex) =>
    let info := set.corr (textIdOf t) .info
    let data := set.corr (textIdOf t) .data
    let taken := cellSpec cfg info data false old b eb ex
    if set.prog (textIdOf t) then new == old || new == taken else new == taken

def chkC06 (cfg : Cfg) (m : Mon) (r : StepRec) : Bool :=
  match r.op with
  | .init | .clear => true
  | _ =>
    match r.op.group? with
    | some g => rtNoisy m g || cellsBy m r g (relC06 cfg r.before.set g.eb)
    | none => true

/-- C08: after a type-2 group the buffer of the other flag is exactly as before; the buffer of the group's flag is
emptied first exactly on a switch (`switchDiscard`), i.e. its non-addressed cells are blank then and unchanged
otherwise; a noisy group (`rtNoisy`) changes no RT cell at all. Groups of other types never touch RT. -/
def chkC08 (m : Mon) (r : StepRec) : Bool :=
  match r.op with
  | .init | .clear => true
  | _ =>
    match r.op.group? with
    | some g =>
      if rtNoisy m g then
        r.after.rt0.cells == r.before.rt0.cells && r.after.rt1.cells == r.before.rt1.cells
      else
        (List.range 2).all fun f =>
          let t := 1 + f
          let old0 := (r.before.text t).cells
          let old := if switchDiscard m r.before g && f = g.b / 16 % 2 then old0.cleared else old0
          let addr := (addressed g).filter (fun a => a.1 = t)
          (r.after.text t).cells.length == old.length &&
          (List.range old.length).all fun i =>
            (addr.find? (fun a => a.2.1 = i)).isSome || (r.after.text t).cells.getD i blank == old.getD i blank
    | none => r.after.rt0.cells == r.before.rt0.cells && r.after.rt1.cells == r.before.rt1.cells

/-! ## C07: progressive texts only improve -/
/-- the weighted level of a reception with block-B error `eb` and carrying-block error `ex` (C06) -/
def recvLevel (eb ex : Nat) : Nat := if eb = 0 && ex = 0 then 0 else 2 * eb + 3 * ex - 1

/-- C07: with progressive correction on for a text (before the call) and the call not resetting that buffer, no
cell's level increases, and a cell's character is replaced only by a reception addressed to that cell whose
weighted level (on the call's own error codes) is not worse than the cell's current level -/
def chkC07 (m : Mon) (r : StepRec) : Bool :=
  match r.op with
  | .init | .clear => true
  | _ =>
    (List.range 4).all fun t =>
      !(r.before.set.prog (textIdOf t)) ||
      (match r.op.group? with
       | some g => switchDiscard m r.before g && t = 1 + g.b / 16 % 2
       | none => false) ||
      (List.range (r.before.text t).cells.length).all fun i =>
        let c := (r.before.text t).cells.getD i blank
        let c' := (r.after.text t).cells.getD i blank
        c'.lvl ≤ c.lvl &&
        (c'.ch == c.ch ||
          (match r.op.group? with
           | some g => (addressed g).any (fun a => a.1 == t && a.2.1 == i && decide (recvLevel g.eb a.2.2.2 ≤ c.lvl))
           | none => false))

/-- C07's convergence clause ("a string whose every cell is eventually received error-free converges to that string regardless of
interleaved corrected receptions"), per call: in a text with progressive correction on, an error-free reception (blocks B and
carrying block both error-free) addressed to a cell is always taken — afterwards the cell holds the end-of-text marker for
0x0D, its old content for a control code, and otherwise the table image of the byte at level 0. (The same rule as the
error-free branch of `relC02`; `chkC07conv_of_chkC02`.) -/
def relC07conv (cfg : Cfg) (set : Settings) (eb : Nat) (t : Nat) (old new : Cell) (addr : Option (Nat × Nat)) : Bool :=
  match addr with
  | none => true
  | some (b, ex) =>
    if set.prog (textIdOf t) && eb = 0 && ex = 0 then
      new == (if b = 0x0D then ⟨0, 0⟩ else if b < 0x20 then old else ⟨conv cfg b, 0⟩)
    else true

def chkC07conv (cfg : Cfg) (m : Mon) (r : StepRec) : Bool :=
  match r.op with
  | .init | .clear => true
  | _ =>
    match r.op.group? with
    | some g => cellsBy m r g (relC07conv cfg r.before.set g.eb)
    | none => true

/-! ## C04: callbacks against getter changes -/

def countKind (evs : List EvObs) (p : EvKind → Bool) : Nat := (evs.filter (fun e => p e.kind)).length

def newAfCodes (before after : Obs) : List Nat :=
  ((List.zip after.sc.af before.sc.af).zipIdx).filterMap
    (fun p => if p.1.1 && !p.1.2 then some p.2 else none)

def afEventKhz (evs : List EvObs) : List Nat :=
  evs.filterMap (fun e => match e.kind with | .af k => some k | _ => none)

def insertNat (x : Nat) : List Nat → List Nat
  | [] => [x]
  | y :: ys => if x ≤ y then x :: y :: ys else y :: insertNat x ys
def sortNat (l : List Nat) : List Nat := l.foldr insertNat []

def b2n (b : Bool) : Nat := if b then 1 else 0

/-- expected number of invocations of each registered callback during a delivered group, and
each event shows its own field at its final value. CT is C12's. -/
def chkC04 (m : Mon) (r : StepRec) : Bool :=
  match r.op.group? with
  | none => true
  | some g =>
    let reg (c : Cb) : Bool := m.cbs.getD c.idx false
    let b := r.before
    let a := r.after
    let cnt (c : Cb) (p : EvKind → Bool) (changed : Bool) : Bool :=
      !reg c || countKind r.evs p == b2n changed
    let flag := g.b / 16 % 2
    cnt .pi (· == .pi) (a.sc.pi != b.sc.pi) &&
    cnt .pty (· == .pty) (a.sc.pty != b.sc.pty) &&
    cnt .tp (· == .tp) (a.sc.tp != b.sc.tp) &&
    cnt .ta (· == .ta) (a.sc.ta != b.sc.ta) &&
    cnt .ms (· == .ms) (a.sc.ms != b.sc.ms) &&
    cnt .ecc (· == .ecc) (a.sc.ecc != b.sc.ecc) &&
    cnt .country (· == .country) (a.sc.country != b.sc.country) &&
    cnt .ps (· == .ps) (a.ps.cells != b.ps.cells) &&
    cnt .ptyn (· == .ptyn) (a.ptyn.cells != b.ptyn.cells) &&
    cnt .rt (· == .rt 0) (a.rt0.cells != b.rt0.cells || (switchDiscard m b g && flag = 0)) &&
    cnt .rt (· == .rt 1) (a.rt1.cells != b.rt1.cells || (switchDiscard m b g && flag = 1)) &&
    (!reg .rt || countKind r.evs (fun k => match k with | .rt f => f ≥ 2 | _ => false) == 0) &&
    (!reg .af ||
      (sortNat (afEventKhz r.evs) == sortNat ((newAfCodes b a).map (fun v => 87500 + 100 * v)) &&
       (afEventKhz r.evs).length ≤ 2)) &&
    r.evs.all (fun e => match e.kind, e.own with
      | .pi, .val v => v == a.sc.pi | .pty, .val v => v == a.sc.pty | .tp, .val v => v == a.sc.tp
      | .ta, .val v => v == a.sc.ta | .ms, .val v => v == a.sc.ms | .ecc, .val v => v == a.sc.ecc
      | .country, .val v => v == a.sc.country
      | .af _, .val v => v == 1
      | .ps, .text c => c == a.ps.cells
      | .rt f, .text c => c == (if f = 0 then a.rt0.cells else a.rt1.cells)
      | .ptyn, .text c => c == a.ptyn.cells
      | .ct _, _ => true
      | _, _ => false)

/-- C10's own callback clause ("every addition triggers the AF callback exactly once with that frequency in kHz"): while an AF
callback is registered, the AF reports of a call are exactly the codes that the call added to the list, each once, as
87 500 + 100·code kHz. It is one conjunct of `chkC04` (`chkC10cb_of_chkC04`). -/
def chkC10cb (m : Mon) (r : StepRec) : Bool :=
  match r.op.group? with
  | none => true
  | some _ =>
    !(m.cbs.getD Cb.af.idx false) ||
      (sortNat (afEventKhz r.evs) == sortNat ((newAfCodes r.before r.after).map (fun v => 87500 + 100 * v)) &&
       (afEventKhz r.evs).length ≤ 2)

/-- C08's own callback clause ("… the buffer of the new flag is emptied first if it held anything (and the RT callback
reports that flag)"): when a switch empties the buffer of the new flag while an RT callback is registered, exactly one
RT event carrying that flag is reported by this call. It is one conjunct of `chkC04` (`chkC08cb_of_chkC04`). -/
def chkC08cb (m : Mon) (r : StepRec) : Bool :=
  match r.op.group? with
  | none => true
  | some g =>
    !(m.cbs.getD Cb.rt.idx false) || !(switchDiscard m r.before g) ||
      countKind r.evs (· == .rt (g.b / 16 % 2)) == 1

/-- C08, "the very first flag after a reset empties nothing" read together with "a type-2 group whose block B has errors and
whose flag differs from the last seen one is ignored": while no flag has been seen since the last reset there is no last
seen flag to differ from, so a type-2 group is neither a switch nor a bit-flip candidate, and both RT buffers come out of
the call exactly as the closed form `expectedText` says for an ordinary group. One instance of `chkCells`
(`chkC08first_of_chkCells`). -/
def chkC08first (cfg : Cfg) (m : Mon) (r : StepRec) : Bool :=
  match r.op.group? with
  | none => true
  | some g =>
    !(g.type = 2 && m.lastFlag == -1) ||
      ((r.after.text 1).cells == expectedText cfg m r.before g 1 &&
       (r.after.text 2).cells == expectedText cfg m r.before g 2)

/-- the getter-visible data (everything except settings) -/
def Obs.sameData (a b : Obs) : Bool :=
  a.sc == b.sc && a.ps == b.ps && a.rt0 == b.rt0 && a.rt1 == b.rt1 && a.ptyn == b.ptyn

/-- C04, last sentence: re-delivering the same group immediately (normal mode) notifies
nothing but clock time and changes no getter -/
def chkC04redeliver (m : Mon) (r : StepRec) : Bool :=
  match r.op.group?, m.prevGroup with
  | some g, some g0 =>
    !(g == g0 && !m.ext) ||
    (r.evs.all (fun e => match e.kind with | .ct _ => true | _ => false) && r.after.sameData r.before)
  | _, _ => true

/-! ## C12: clock time -/
def isLeap (y : Int) : Bool := (y % 4 == 0 && y % 100 != 0) || y % 400 == 0
def daysInMonth (y m : Int) : Int :=
  if m = 2 then (if isLeap y then 29 else 28)
  else if m = 4 || m = 6 || m = 9 || m = 11 then 30 else 31
def validDate (y m d : Int) : Bool := 1 ≤ m && m ≤ 12 && 1 ≤ d && d ≤ daysInMonth y m
/-- days from 0001-01-01 to y-01-01 (proleptic Gregorian) -/
def daysBeforeYear (y : Int) : Int := 365 * (y - 1) + (y - 1) / 4 - (y - 1) / 100 + (y - 1) / 400
def daysBeforeMonth (y m : Int) : Int :=
  ((List.range (m.toNat - 1)).map (fun (i : Nat) => daysInMonth y ((i : Int) + 1))).foldl (· + ·) 0
def ordinal (y m d : Int) : Int := daysBeforeYear y + daysBeforeMonth y m + (d - 1)
/-- Modified Julian Day of a calendar date (MJD 0 = 1858-11-17) -/
def mjdOf (y m d : Int) : Int := ordinal y m d - ordinal 1858 11 17

def ctEvents (evs : List EvObs) : List CtVal :=
  evs.filterMap (fun e => match e.kind with | .ct v => some v | _ => none)

/-- C12 for one call (`reg` = clock-time callback registered) -/
def chkC12 (m : Mon) (r : StepRec) : Bool :=
  let cts := ctEvents r.evs
  if !(m.cbs.getD Cb.ct.idx false) then cts.isEmpty else
  match r.op.group? with
  | none => cts.isEmpty
  | some g =>
    let f := ctFields g
    let mjd := f.1; let h := f.2.1; let mi := f.2.2.1; let off := f.2.2.2
    let expected := g.type = 4 && !g.versionB && g.eb = 0 && g.ec = 0 && g.ed = 0 && h < 24 && mi < 60
    if !expected then cts.isEmpty else
    match cts with
    | [v] =>
      validDate v.year v.month v.day && 0 ≤ v.hour && v.hour < 24 && 0 ≤ v.minute && v.minute < 60 &&
      v.offsetMin == 30 * off &&
      (mjdOf v.year v.month v.day) * 1440 + v.hour * 60 + v.minute
        == (mjd : Int) * 1440 + (h : Int) * 60 + mi + 30 * off
    | _ => false

/-! ## C13: reset -/
def blankText (cap : Nat) : TextObs := ⟨List.replicate cap blank, 0, cap, false⟩

/-- what every getter shows after initialisation, with the given settings -/
def Obs.fresh (set : Settings) : Obs :=
  { sc := .cleared, ps := blankText capPs, rt0 := blankText capRt, rt1 := blankText capRt,
    ptyn := blankText capPtyn, set := set }

def chkC13 (r : StepRec) : Bool :=
  match r.op with
  | .clear => r.after == Obs.fresh r.before.set
  | .init => r.after == Obs.fresh Settings.init
  | _ => true

/-! ## C14: hex-string input -/
def chkC14 (r : StepRec) : Bool :=
  match r.op with
  | .parseString _ =>
    match r.op.group? with
    | some _ => r.ret
    | none => !r.ret && r.evs.isEmpty && r.after == r.before
  | _ => true

/-! ## C15: observers -/
def chkC15 (m : Mon) (r : StepRec) : Bool :=
  r.evs.all (fun e => m.cbs.getD e.kind.cb.idx false && e.ud == m.ud && e.handleOk) &&
  (match r.op with
   | .register _ _ | .userData _ | .getters => r.after == r.before && r.evs.isEmpty
   | _ => true)

/-! ## C16: well-formed texts -/
def printable (cfg : Cfg) (ch : Nat) : Bool :=
  (List.range 256).any (fun b => 0x20 ≤ b && conv cfg b == ch)

def wfTextObs (cfg : Cfg) (t : TextObs) (cap : Nat) : Bool :=
  t.cells.length == cap && t.term == 0 &&
  t.cells.all (fun c => c.lvl ≤ 10 && (c.lvl != 10 || c.ch == 0x20) &&
    (c.ch == 0 || c.lvl == 10 || printable cfg c.ch)) &&
  t.av == getAvailable t.cells && t.len == getLength t.cells

/-- no cell counts as received -/
def neverReceived (t : TextObs) : Bool := t.cells.all (fun c => c.lvl == 10)

/-- `init` / `clear`: the calls after which, by definition, nothing has been received -/
def Op.isReset : Op → Bool
  | .init | .clear => true
  | _ => false

def chkC16 (cfg : Cfg) (r : StepRec) : Bool :=
  wfTextObs cfg r.after.ps capPs && wfTextObs cfg r.after.rt0 capRt &&
  wfTextObs cfg r.after.rt1 capRt && wfTextObs cfg r.after.ptyn capPtyn &&
  -- "a never-received cell holds a space at level 'uncorrectable'": right after a reset every cell is one
  (!r.op.isReset || (neverReceived r.after.ps && neverReceived r.after.rt0 &&
    neverReceived r.after.rt1 && neverReceived r.after.ptyn))

/-- all per-call predicates, with the property each belongs to -/
def allChecks (tb : Tabs) (m m' : Mon) (r : StepRec) : List (String × Bool) :=
  [("C01", chkC01 m' r && chkNormalScalars r), ("C02", chkC02 tb.cfg m r), ("C04", chkC04 m r && chkC04redeliver m r),
   ("C06", chkC06 tb.cfg m r), ("C07", chkC07 m r && chkC07conv tb.cfg m r), ("C08", chkC08 m r && chkC08cb m r && chkC08first tb.cfg m r),
   ("C09", chkC09 m' r), ("C10", chkC10 m' r && chkNormalAf r && chkC10cb m r), ("C11", chkC11 tb m' r && chkNormalEcc r), ("C12", chkC12 m r),
   ("C13", chkC13 r), ("C14", chkC14 r), ("C15", chkC15 m r), ("C16", chkC16 tb.cfg r),
   ("C17", chkC17 m' r)]

end RDS
