import RdsModel
import RdsSpec.Trace
import RdsSpec.Monitors
/-!
# RdsSpec.Statements — how the per-call predicates are applied to the model

`recOf` is the observer's record of one call made on model state `s`; `monAfter` is the
history summary after an op list. A property theorem has the shape

  ∀ cfg ops op,  chkCxx (monAfter cfg ops) … (recOf cfg (run cfg ops) op) = true

i.e. for every history `ops` from a freshly initialised parser and every next call `op`.
-/
namespace RDS

/-- the record of call `op` made in model state `s` (events in the order the model emits them) -/
def recOf (cfg : Cfg) (s : State) (op : Op) : StepRec :=
  let r := step cfg s op
  ⟨op, Obs.ofState s, Obs.ofState r.1, r.2.1.map EvObs.ofEvent, r.2.2⟩

/-- the history summary after `ops` (from initialisation) -/
def monAfter (cfg : Cfg) (ops : List Op) : Mon := ops.foldl (Mon.step cfg) Mon.init

/-- the tables satisfy the range contract of `rdsparser_ecc_lookup` -/
def EccOk (tb : Tabs) : Prop := 0 < tb.countryCount ∧ ∀ n e, tb.cfg.ecc n e < tb.countryCount

/-- the C API's argument ranges: 16-bit blocks, 8-bit error codes and threshold values,
bytes of a C string are 1..255 -/
def Group.Bounded (g : Group) : Prop :=
  g.a < 65536 ∧ g.b < 65536 ∧ g.c < 65536 ∧ g.d < 65536 ∧ g.ea < 256 ∧ g.eb < 256 ∧ g.ec < 256 ∧ g.ed < 256

def Op.Bounded : Op → Prop
  | .parse g => g.Bounded
  | .parseString (some bytes) => ∀ c ∈ bytes, 1 ≤ c ∧ c < 256
  | .setCorr _ _ v => v < 256
  | _ => True

/-! ## C03: which blocks are read on an accepted path (the property's list) -/

def anyInfo (set : Settings) (eb : Nat) : Bool :=
  eb ≤ set.psInfo || eb ≤ set.rtInfo || eb ≤ set.ptynInfo

/-- block A is used iff it is error-free (PI) -/
def usedA (g : Group) : Bool := g.ea = 0

/-- block B is used iff it is error-free (PTY/TP, TA/MS, group type for AF/ECC/CT) or within
some text's configured maximum for block B -/
def usedB (set : Settings) (g : Group) : Bool := g.eb = 0 || anyInfo set g.eb

/-- block C carries AF (0A), ECC (1A), RT characters (2A), clock time (4A), PTYN (10A) -/
def usedC (set : Settings) (g : Group) : Bool :=
  if g.versionB then false else
  if g.type = 0 then g.eb = 0 && g.ec = 0
  else if g.type = 1 then g.eb = 0 && g.ec = 0
  else if g.type = 2 then g.eb ≤ set.rtInfo && g.ec ≤ set.rtData
  else if g.type = 4 then g.eb = 0 && g.ec = 0 && g.ed = 0
  else if g.type = 10 then g.eb ≤ set.ptynInfo && g.ec ≤ set.ptynData
  else false

/-- block D carries PS (0A/0B), RT (2A/2B), clock time (4A), PTYN (10A) characters -/
def usedD (set : Settings) (g : Group) : Bool :=
  if g.type = 0 then g.eb ≤ set.psInfo && g.ed ≤ set.psData
  else if g.type = 2 then g.eb ≤ set.rtInfo && g.ed ≤ set.rtData
  else if g.type = 4 then !g.versionB && g.eb = 0 && g.ec = 0 && g.ed = 0
  else if g.type = 10 then !g.versionB && g.eb ≤ set.ptynInfo && g.ed ≤ set.ptynData
  else false

/-- `g'` carries the same error codes as `g` and the same data in every block that is used
(decided on `g`; if block B is unused, C and D are unused as well) -/
def sameUsed (set : Settings) (g g' : Group) : Bool :=
  g.ea = g'.ea && g.eb = g'.eb && g.ec = g'.ec && g.ed = g'.ed &&
  (!usedA g || g.a = g'.a) &&
  (!usedB set g || (g.b = g'.b &&
     (!usedC set g || g.c = g'.c) && (!usedD set g || g.d = g'.d)))

/-! ## C15: observers -/

/-- forget who is listening -/
def erase (s : State) : State := { s with cbs := List.replicate 12 false, ud := 0 }

/-- everybody is listening -/
def listenAll (s : State) : State := { s with cbs := List.replicate 12 true }

def Op.isObserver : Op → Bool
  | .register _ _ | .userData _ | .getters => true
  | _ => false

/-! ## C20: the two charset configurations -/

/-- the same tables, built with `RDSPARSER_DISABLE_UNICODE` -/
def Cfg.narrow (cfg : Cfg) : Cfg := { cfg with unicode := false }
/-- the same tables, default (wide character) build -/
def Cfg.wide (cfg : Cfg) : Cfg := { cfg with unicode := true }

/-- a narrow-build cell seen as a wide-build cell: the raw byte mapped through the charset table
(the end-of-text marker 0 stays 0) -/
def embedCell (cfg : Cfg) (c : Cell) : Cell := if c.ch = 0 then c else ⟨cfg.g0 c.ch, c.lvl⟩
def embedText (cfg : Cfg) (t : Text) : Text := t.map (embedCell cfg)
def embedState (cfg : Cfg) (s : State) : State :=
  { s with ps := embedText cfg s.ps, rt0 := embedText cfg s.rt0, rt1 := embedText cfg s.rt1,
           ptyn := embedText cfg s.ptyn }

/-- what C20 needs of the charset table on 0x20..0x7E: space maps to space, no printable maps to the
end-of-text marker, and the table is injective there (`C20_g0_ascii`/`C20_g0_injective_ascii` prove it of
the regenerated table) -/
def G0Ascii (cfg : Cfg) : Prop :=
  cfg.g0 0x20 = 0x20 ∧ (∀ b, 0x20 ≤ b → b ≤ 0x7E → cfg.g0 b ≠ 0) ∧
  (∀ b c, 0x20 ≤ b → b ≤ 0x7E → 0x20 ≤ c → c ≤ 0x7E → cfg.g0 b = cfg.g0 c → b = c)

/-- no byte ≥ 0x7F is presented (addressed to a text cell, accepted or not) by this group -/
def Group.asciiOnly (g : Group) : Bool := (addressed g).all (fun a => a.2.2.1 < 0x7F)

def Op.asciiOnly (op : Op) : Bool :=
  match op.group? with
  | some g => g.asciiOnly
  | none => true

/-- which cells have been received -/
def recvMask (t : Text) : List Bool := t.map (fun c => c.lvl != 10)

/-- everything of a state except the characters and levels of the texts -/
def nonText (s : State) : Scalars × Scalars × Settings × Int × List Bool × Nat × List (List Bool) :=
  (s.used, s.temp, s.set, s.lastRt, s.cbs, s.ud, [recvMask s.ps, recvMask s.rt0, recvMask s.rt1, recvMask s.ptyn])

/-- kinds of the callbacks other than the three text callbacks, in order -/
def nonTextKinds (evs : List Event) : List EvKind :=
  (evs.map (·.kind)).filter (fun k => match k with | .ps | .rt _ | .ptyn => false | _ => true)

end RDS
