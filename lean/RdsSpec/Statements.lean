import RdsModel
import RdsSpec.Trace
import RdsSpec.Monitors
/-!
# RdsSpec.Statements — how the per-call predicates are applied to the model

`recOf` is the observer's record of one call made on model state `s`; `monAfter` is the
history summary after an op list. A property theorem has the shape

  ∀ cfg ops op,  chkCxx (monAfter cfg ops) … (recOf cfg (run cfg ops) op) = true

i.e. for every history `ops` from a freshly initialised parser and every next call `op`.
-/
namespace RDS

/-- the record of call `op` made in model state `s` (events in the order the model emits them) -/
def recOf (cfg : Cfg) (s : State) (op : Op) : StepRec :=
  let r := step cfg s op
  ⟨op, Obs.ofState s, Obs.ofState r.1, r.2.1.map EvObs.ofEvent, r.2.2⟩

/-- the history summary after `ops` (from initialisation) -/
def monAfter (cfg : Cfg) (ops : List Op) : Mon := ops.foldl (Mon.step cfg) Mon.init

/-- the tables satisfy the range contract of `rdsparser_ecc_lookup` -/
def EccOk (tb : Tabs) : Prop := 0 < tb.countryCount ∧ ∀ n e, tb.cfg.ecc n e < tb.countryCount

end RDS
