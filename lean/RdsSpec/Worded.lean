import RdsModel
import RdsSpec.Monitors
import RdsSpec.Statements
/-!
# RdsSpec.Worded — the history-quantified properties in their own words

Declarative readings of C01, C09, C10 and C17 directly over the call history, without the abstract machine `Mon`:
the sequence of receptions of a field since the last reset, "last element", "last adjacent equal pair",
"number of receptions of an AF code", "last value written to a key". The theorems of `RdsProofs/WordedProofs.lean`
state that the getters of the model equal these readings after every op list.
-/
namespace RDS

/-- value of a field carried by a delivered group, if the group carries one on an accepted path -/
def selPi (g : Group) : Option Int := if g.ea = 0 then some (g.a : Int) else none
def selPty (g : Group) : Option Int := if g.eb = 0 then some ((g.b / 32 % 32 : Nat) : Int) else none
def selTp (g : Group) : Option Int := if g.eb = 0 then some ((g.b / 1024 % 2 : Nat) : Int) else none
def selTa (g : Group) : Option Int := if g.type = 0 ∧ g.eb = 0 then some ((g.b / 16 % 2 : Nat) : Int) else none
def selMs (g : Group) : Option Int := if g.type = 0 ∧ g.eb = 0 then some ((g.b / 8 % 2 : Nat) : Int) else none
def selEcc (g : Group) : Option Int :=
  if g.type = 1 ∧ g.versionB = false ∧ g.eb = 0 ∧ g.ec = 0 ∧ g.c / 4096 % 8 = 0 then some ((g.c % 256 : Nat) : Int) else none

/-- the receptions of a field since the last reset (`init`/`clear`), oldest first -/
def recvSeq (sel : Group → Option Int) (ops : List Op) : List Int :=
  ops.foldl (fun acc op =>
    match op with
    | .init | .clear => []
    | _ => match op.group?.bind sel with
           | some v => acc ++ [v]
           | none => acc) []

/-- normal mode: the getter shows the last reception, `unk` before the first one -/
def lastOr (unk : Int) (l : List Int) : Int := l.getLast?.getD unk

/-- extended check: the getter shows the value of the most recent two consecutive identical receptions
(scan oldest-first keeping the previous reception and the visible value), `unk` if there is no such pair -/
def extFold (unk : Int) (l : List Int) : Int :=
  (l.foldl (fun (st : Option Int × Int) v => (some v, if st.1 = some v then v else st.2)) (none, unk)).2

/-- the extended check is never switched on -/
def NormalMode (ops : List Op) : Prop := ∀ op ∈ ops, op ≠ .setExt true

/-- the extended check is switched on while the parser is in its reset state and never touched again:
`ops = setExt true :: rest` on a fresh parser, `rest` containing no `setExt` and no `init` -/
def ExtendedMode (ops : List Op) : Prop :=
  ∃ rest, ops = .setExt true :: rest ∧ ∀ op ∈ rest, (∀ v, op ≠ .setExt v) ∧ op ≠ .init

/-- AF codes carried by a delivered group on the accepted path (0A, blocks B and C error-free, first code ≠ 250) -/
def afCodes (g : Group) : List Nat :=
  if g.type = 0 ∧ g.versionB = false ∧ g.eb = 0 ∧ g.ec = 0 ∧ g.c / 256 % 256 ≠ 250 then [g.c / 256 % 256, g.c % 256] else []

/-- how often AF code `v` has been received since the last reset -/
def afCount (v : Nat) (ops : List Op) : Nat :=
  ops.foldl (fun n op =>
    match op with
    | .init | .clear => 0
    | _ => match op.group? with
           | some g => n + ((afCodes g).filter (· == v)).length
           | none => n) 0

/-- last value written to a threshold key since initialisation (clamped), 0 if none -/
def lastCorr (t : TextId) (k : BlockType) (ops : List Op) : Nat :=
  ops.foldl (fun cur op =>
    match op with
    | .init => 0
    | .setCorr t' k' v => if t' = t ∧ k' = k then min v 2 else cur
    | _ => cur) 0

def lastProg (t : TextId) (ops : List Op) : Bool :=
  ops.foldl (fun cur op =>
    match op with
    | .init => false
    | .setProg t' v => if t' = t then v else cur
    | _ => cur) false

def lastExt (ops : List Op) : Bool :=
  ops.foldl (fun cur op =>
    match op with
    | .init => false
    | .setExt v => v
    | _ => cur) false

end RDS
