import RdsSpec.Trace
/-!
# RdsSpec.TraceParse — parser for the canonical trace printed by `harness.c`

Guarded by a print/parse round trip in the driver: every state line that is parsed is
re-printed from the reconstructed `Obs` and must be identical to the input line.
-/
namespace RDS

def parseHex? (s : String) : Option Nat :=
  if s.isEmpty then none else
  s.toList.foldl (fun acc c => match acc, hexDigit? c with
    | some a, some d => some (16 * a + d) | _, _ => none) (some 0)
where hexDigit? (c : Char) : Option Nat :=
  let n := c.toNat
  if 48 ≤ n && n ≤ 57 then some (n - 48)
  else if 97 ≤ n && n ≤ 102 then some (n - 87)
  else none

def parseCells? (s : String) : Option Text :=
  (s.splitOn ",").foldr (fun part acc =>
    match acc, part.splitOn "/" with
    | some l, [a, b] => match parseHex? a, parseHex? b with
      | some ch, some lvl => some (⟨ch, lvl⟩ :: l)
      | _, _ => none
    | _, _ => none) (some [])

def unpackBits (bytes : List Nat) : List Bool :=
  bytes.flatMap fun b => (List.range 8).map fun j => (b / 2 ^ (7 - j)) % 2 = 1

def parseAf? (s : String) : Option (List Bool) :=
  let cs := s.toList
  if cs.length ≠ 52 then none else
  let rec go : List Char → Option (List Nat)
    | a :: b :: rest => match parseHex? (String.ofList [a, b]), go rest with
      | some v, some r => some (v :: r) | _, _ => none
    | [] => some []
    | _ => none
  (go cs).map unpackBits

def kindOf? (idx arg : Nat) (ct : Option CtVal) : Option EvKind :=
  match idx with
  | 0 => some .pi | 1 => some .pty | 2 => some .tp | 3 => some .ta | 4 => some .ms
  | 5 => some .ecc | 6 => some .country | 7 => some (.af arg) | 8 => some .ps
  | 9 => some (.rt arg) | 10 => some .ptyn | 11 => ct.map .ct | _ => none

def dropPrefix? (s pre : String) : Option String :=
  if s.startsWith pre then some (s.drop pre.length).toString else none

/-- "E kind arg ud=n h=b own=…" -/
def parseEvent? (line : String) : Option EvObs :=
  match line.splitOn " own=" with
  | [head, own] =>
    match head.splitOn " " with
    | ["E", k, a, ud, h] =>
      match k.toNat?, a.toNat?, (dropPrefix? ud "ud=").bind String.toNat?, dropPrefix? h "h=" with
      | some k, some a, some ud, some h =>
        if k ≤ 7 then
          match own.toInt?, kindOf? k a none with
          | some v, some kind => some ⟨kind, ud, h == "1", .val v⟩
          | _, _ => none
        else if k ≤ 10 then
          match parseCells? own, kindOf? k a none with
          | some c, some kind => some ⟨kind, ud, h == "1", .text c⟩
          | _, _ => none
        else
          match (own.splitOn " ").map String.toInt? with
          | [some y, some mo, some d, some hh, some mi, some off] =>
            some ⟨.ct ⟨y, mo, d, hh, mi, off⟩, ud, h == "1", .ct⟩
          | _ => none
      | _, _, _, _ => none
    | _ => none
  | _ => none

/-- apply one state line to an observation; `none` if the line is malformed -/
def applyStateLine (o : Obs) (line : String) : Option Obs :=
  match line.splitOn " " with
  | ["S", a, b, c, d, e, f, g] =>
    match a.toInt?, b.toInt?, c.toInt?, d.toInt?, e.toInt?, f.toInt?, g.toInt? with
    | some a, some b, some c, some d, some e, some f, some g =>
      some { o with sc := { o.sc with pi := a, pty := b, tp := c, ta := d, ms := e, ecc := f, country := g } }
    | _, _, _, _, _, _, _ => none
  | ["A", h] => (parseAf? h).map fun af => { o with sc := { o.sc with af := af } }
  | ["T", tid, term, len, av, cells] =>
    match tid.toNat?, parseHex? term, len.toNat?, parseCells? cells with
    | some tid, some term, some len, some c =>
      let t : TextObs := ⟨c, term, len, av == "1"⟩
      match tid with
      | 0 => some { o with ps := t } | 1 => some { o with rt0 := t } | 2 => some { o with rt1 := t }
      | 3 => some { o with ptyn := t } | _ => none
    | _, _, _, _ => none
  | ["G", e, p0, p1, p2, c0, c1, c2, c3, c4, c5] =>
    match c0.toNat?, c1.toNat?, c2.toNat?, c3.toNat?, c4.toNat?, c5.toNat? with
    | some c0, some c1, some c2, some c3, some c4, some c5 =>
      some { o with set := ⟨e == "1", p0 == "1", p1 == "1", p2 == "1", c0, c1, c2, c3, c4, c5⟩ }
    | _, _, _, _, _, _ => none
  | _ => none

/-- re-print a state line from the observation it produced (round-trip guard) -/
def reprintStateLine (o : Obs) (line : String) : String :=
  match line.splitOn " " with
  | "S" :: _ => scalarsLine o.sc
  | "A" :: _ => afLine o.sc
  | "T" :: tid :: _ => match tid.toNat? with | some t => textLine t (o.text t) | none => ""
  | "G" :: _ => settingsLine o.set
  | _ => ""

/-- a placeholder observation for a slot nothing has been printed for yet -/
def Obs.empty : Obs :=
  { sc := ⟨0, 0, 0, 0, 0, 0, 0, []⟩, ps := ⟨[], 0, 0, false⟩, rt0 := ⟨[], 0, 0, false⟩,
    rt1 := ⟨[], 0, 0, false⟩, ptyn := ⟨[], 0, 0, false⟩, set := Settings.init }

end RDS
