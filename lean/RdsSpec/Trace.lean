import RdsModel
/-!
# RdsSpec.Trace — the getter-visible observation of a parser and the canonical trace format

`Obs` is exactly what the public getters show (no `temp` candidates, no last RT flag, no
callback table). The C harness prints it for the real library, `Obs.ofState` computes it for
the model; both are printed with the functions below, so the correspondence check is a
line-by-line comparison and the monitors of `RdsSpec.Monitors` read the same `Obs` on both
sides.
-/
namespace RDS

structure TextObs where
  cells : Text
  /-- the cell directly after the capacity (must be the terminator 0) -/
  term : Nat
  /-- `rdsparser_string_get_length` -/
  len : Nat
  /-- `rdsparser_string_get_available` -/
  av : Bool
deriving DecidableEq, Repr

structure Obs where
  sc : Scalars
  ps : TextObs
  rt0 : TextObs
  rt1 : TextObs
  ptyn : TextObs
  set : Settings
deriving DecidableEq, Repr

def TextObs.ofText (t : Text) (term : Nat) : TextObs := ⟨t, term, getLength t, getAvailable t⟩

def Obs.ofState (s : State) : Obs :=
  { sc := s.used, ps := .ofText s.ps s.termPs, rt0 := .ofText s.rt0 s.termRt0,
    rt1 := .ofText s.rt1 s.termRt1, ptyn := .ofText s.ptyn s.termPtyn, set := s.set }

def Obs.text (o : Obs) : Nat → TextObs
  | 0 => o.ps | 1 => o.rt0 | 2 => o.rt1 | _ => o.ptyn

/-- what an event shows of its own field at the moment of the call -/
inductive Own
  | val (v : Int)           -- scalar getter / AF "listed" flag
  | text (cells : Text)     -- PS / RT[flag] / PTYN cells
  | ct                      -- clock time has no getter
deriving DecidableEq, Repr

structure EvObs where
  kind : EvKind
  ud : Nat
  /-- the handle passed to the callback is the instance the call was made on -/
  handleOk : Bool
  own : Own
deriving DecidableEq, Repr

/-! ## printing -/

def hex (n : Nat) : String := String.ofList (Nat.toDigits 16 n)

def hex2 (n : Nat) : String :=
  let s := hex (n % 256)
  if s.length < 2 then "0" ++ s else s

def cellsStr (t : Text) : String :=
  ",".intercalate (t.map fun c => hex c.ch ++ "/" ++ hex c.lvl)

/-- packed AF bitmap, MSB first, as in `af.c` (bit `n` of the list is AF code `n`) -/
def packBits : Nat → List Bool → List Nat
  | 0, _ => []
  | n + 1, l =>
    ((l.take 8).foldl (fun acc b => 2 * acc + (if b then 1 else 0)) 0 * 2 ^ (8 - (l.take 8).length)) ::
      packBits n (l.drop 8)

def afBytesOf (af : List Bool) : List Nat := packBits 26 af

def afStr (af : List Bool) : String := String.join ((afBytesOf af).map hex2)

def b2s (b : Bool) : String := if b then "1" else "0"

def scalarsLine (x : Scalars) : String :=
  s!"S {x.pi} {x.pty} {x.tp} {x.ta} {x.ms} {x.ecc} {x.country}"

def afLine (x : Scalars) : String := "A " ++ afStr x.af

def textLine (tid : Nat) (t : TextObs) : String :=
  s!"T {tid} {hex t.term} {t.len} {b2s t.av} {cellsStr t.cells}"

def settingsLine (s : Settings) : String :=
  s!"G {b2s s.ext} {b2s s.progPs} {b2s s.progRt} {b2s s.progPtyn} {s.psInfo} {s.psData} {s.rtInfo} {s.rtData} {s.ptynInfo} {s.ptynData}"

def EvKind.idx : EvKind → Nat
  | .pi => 0 | .pty => 1 | .tp => 2 | .ta => 3 | .ms => 4 | .ecc => 5 | .country => 6
  | .af _ => 7 | .ps => 8 | .rt _ => 9 | .ptyn => 10 | .ct _ => 11

def EvKind.arg : EvKind → Nat
  | .af k => k | .rt f => f | _ => 0

def evLine (e : EvObs) : String :=
  let own := match e.kind, e.own with
    | .ct v, _ => s!"{v.year} {v.month} {v.day} {v.hour} {v.minute} {v.offsetMin}"
    | _, .val v => s!"{v}"
    | _, .text c => cellsStr c
    | _, .ct => ""
  s!"E {e.kind.idx} {e.kind.arg} ud={e.ud} h={b2s e.handleOk} own={own}"

/-- the model's view of an event -/
def EvObs.ofEvent (e : Event) : EvObs :=
  let own : Own := match e.kind with
    | .pi => .val e.snap.used.pi | .pty => .val e.snap.used.pty | .tp => .val e.snap.used.tp
    | .ta => .val e.snap.used.ta | .ms => .val e.snap.used.ms | .ecc => .val e.snap.used.ecc
    | .country => .val e.snap.used.country
    | .af k => .val (if e.snap.used.af.getD ((k - 87500) / 100) false then 1 else 0)
    | .ps => .text e.snap.ps
    | .rt f => .text (e.snap.rt f)
    | .ptyn => .text e.snap.ptyn
    | .ct _ => .ct
  ⟨e.kind, e.ud, true, own⟩

/-- canonical order of the events of one call: by callback kind, then argument (the
properties do not fix the order between different fields' callbacks) -/
def evKey (e : EvObs) : Nat := e.kind.idx * 1000000 + e.kind.arg

def insertEv (e : EvObs) : List EvObs → List EvObs
  | [] => [e]
  | x :: xs => if evKey e ≤ evKey x then e :: x :: xs else x :: insertEv e xs   -- `≤`: stable (equal keys keep invocation order)

def sortEvs (l : List EvObs) : List EvObs := l.foldr insertEv []

/-- has component `f` changed since the previous snapshot (always true for the first one)? -/
def changedBy {α : Type} [BEq α] (prev : Option Obs) (now : Obs) (f : Obs → α) : Bool :=
  match prev with
  | none => true
  | some p => f p != f now

/-- the state lines printed after an op: only the components that differ from `prev` -/
def deltaLines (prev : Option Obs) (now : Obs) : List String :=
  (if changedBy prev now (fun o => [o.sc.pi, o.sc.pty, o.sc.tp, o.sc.ta, o.sc.ms, o.sc.ecc, o.sc.country]) then [scalarsLine now.sc] else []) ++
  (if changedBy prev now (fun o => o.sc.af) then [afLine now.sc] else []) ++
  (if changedBy prev now (·.ps) then [textLine 0 now.ps] else []) ++
  (if changedBy prev now (·.rt0) then [textLine 1 now.rt0] else []) ++
  (if changedBy prev now (·.rt1) then [textLine 2 now.rt1] else []) ++
  (if changedBy prev now (·.ptyn) then [textLine 3 now.ptyn] else []) ++
  (if changedBy prev now (·.set) then [settingsLine now.set] else [])

end RDS
