import RdsModel
/-!
# RdsSpec.OpsFile — the ops-file vocabulary shared by the C harness and the Lean driver
(one operation per line; see DESIGN.md §4.2)
-/
namespace RDS

def hexDigit? (c : Char) : Option Nat :=
  let n := c.toNat
  if 48 ≤ n && n ≤ 57 then some (n - 48)
  else if 97 ≤ n && n ≤ 102 then some (n - 87)
  else if 65 ≤ n && n ≤ 70 then some (n - 55)
  else none

/-- decode "3132…" into bytes -/
def unhex : List Char → Option (List Nat)
  | [] => some []
  | [_] => none
  | a :: b :: rest =>
    match hexDigit? a, hexDigit? b, unhex rest with
    | some x, some y, some r => some ((16 * x + y) :: r)
    | _, _, _ => none

def textIdOfNat : Nat → Option TextId
  | 0 => some .ps | 1 => some .rt | 2 => some .ptyn | _ => none

def blockTypeOfNat : Nat → Option BlockType
  | 0 => some .info | 1 => some .data | _ => none

def cbOfNat : Nat → Option Cb
  | 0 => some .pi | 1 => some .pty | 2 => some .tp | 3 => some .ta | 4 => some .ms | 5 => some .ecc
  | 6 => some .country | 7 => some .af | 8 => some .ps | 9 => some .rt | 10 => some .ptyn
  | 11 => some .ct | _ => none

/-- a parsed line: `init` is context dependent (create if the slot is empty) so it is kept apart -/
inductive Line
  | mop (m : MOp)
  | initLine
  | bad
deriving Repr

def parseLine (line : String) : Line :=
  let ws := (line.trimAscii.toString.splitOn " ").filter (· ≠ "")
  let n? (s : String) := s.toNat?
  match ws with
  | ["@", i] => match n? i with | some i => .mop (.select i) | none => .bad
  | ["new"] => .mop .create
  | ["init"] => .initLine
  | ["free"] => .mop .destroy
  | ["mf"] => .mop .mallocFail
  | ["fn"] => .mop .freeNull
  | ["clear"] => .mop (.op .clear)
  | ["q"] => .mop (.op .getters)
  -- `ri m`: harness-only switch (callbacks re-register / change user data from inside the callback, C15 twin runs);
  -- the model has no re-entrant callbacks, so for the model it is an observer op
  | ["ri", _] => .mop (.op .getters)
  -- `qo m`: harness-only switch (print the order in which the callbacks of a call ran; twin runs)
  | ["qo", _] => .mop (.op .getters)
  | ["p", a, b, c, d, ea, eb, ec, ed] =>
    match n? a, n? b, n? c, n? d, n? ea, n? eb, n? ec, n? ed with
    | some a, some b, some c, some d, some ea, some eb, some ec, some ed =>
      -- the C API takes uint16_t blocks and uint8_t error codes
      .mop (.op (.parse ⟨a % 65536, b % 65536, c % 65536, d % 65536, ea % 256, eb % 256, ec % 256, ed % 256⟩))
    | _, _, _, _, _, _, _, _ => .bad
  | ["s", "N"] => .mop (.op (.parseString none))
  | ["s", x] =>
    match x.toList with
    | 'X' :: rest => match unhex rest with
      | some bytes => .mop (.op (.parseString (some bytes)))
      | none => .bad
    | _ => .bad
  | ["x", v] => match n? v with | some v => .mop (.op (.setExt (v ≠ 0))) | none => .bad
  | ["c", t, k, v] =>
    match (n? t).bind textIdOfNat, (n? k).bind blockTypeOfNat, n? v with
    | some t, some k, some v => .mop (.op (.setCorr t k (v % 256)))
    | _, _, _ => .bad
  | ["g", t, v] =>
    match (n? t).bind textIdOfNat, n? v with
    | some t, some v => .mop (.op (.setProg t (v ≠ 0)))
    | _, _ => .bad
  | ["r", k, on] =>
    match (n? k).bind cbOfNat, n? on with
    | some k, some on => .mop (.op (.register k (on ≠ 0)))
    | _, _ => .bad
  | ["u", n] => match n? n with | some n => .mop (.op (.userData n)) | none => .bad
  | _ => .bad

end RDS
