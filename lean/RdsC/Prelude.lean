/-!
# RdsC.Prelude — hand-written support for the output of `tools/c2lean.py`

The generated file `RdsC/Translated.lean` gives every scalar C value the Lean type `Int`.
This file defines what the generated code refers to:

* the wraps `u8 u16 u32 u64 i8 i16 i32 i64` (conversion to a C integer type), `cbool`, `b2i`;
* the bit operations `band bor bxor shl shr` on `Int`, *defined via `Nat`* — they agree with C
  only on non-negative operands (the translator records a side condition whenever it cannot see
  that an operand is non-negative);
* `CStr`, the abstract packed string (`rdsparser_string_t *`), and `CEvent`, one invoked callback;
* list access with `Int` indices (`getI getL getS listSet`) and the bounded loop `forRange`;
* C strings as byte lists and the trusted models `libc_strlen libc_isxdigit libc_strtol16` of the three
  libc functions `src/utils.c` calls;
* `@[simp]` lemmas used by `RdsProofs/Trans*.lean`.

Core Lean only.
-/
namespace RDS.C

/-! ## conversions to C integer types -/

def u8 (x : Int) : Int := x % 256
def u16 (x : Int) : Int := x % 65536
def u32 (x : Int) : Int := x % 4294967296
def u64 (x : Int) : Int := x % 18446744073709551616
def i8 (x : Int) : Int := (x + 128) % 256 - 128
def i16 (x : Int) : Int := (x + 32768) % 65536 - 32768
def i32 (x : Int) : Int := (x + 2147483648) % 4294967296 - 2147483648
def i64 (x : Int) : Int := (x + 9223372036854775808) % 18446744073709551616 - 9223372036854775808

/-- `Bool` used as a C value -/
def b2i (b : Bool) : Int := if b then 1 else 0

/-- conversion to `_Bool` -/
def cbool (x : Int) : Int := if x ≠ 0 then 1 else 0

/-! ## bit operations (non-negative operands only) -/

def band (x y : Int) : Int := Int.ofNat (x.toNat &&& y.toNat)
def bor (x y : Int) : Int := Int.ofNat (x.toNat ||| y.toNat)
def bxor (x y : Int) : Int := Int.ofNat (x.toNat ^^^ y.toNat)
def shl (x n : Int) : Int := Int.ofNat (x.toNat <<< n.toNat)
def shr (x n : Int) : Int := Int.ofNat (x.toNat >>> n.toNat)

/-! ## the packed string and the callback log -/

/-- What an `rdsparser_string_t *` designates: the size slot, `size` characters, the
terminator slot and `size` per-character error levels. The four layout functions of
`string.c` are primitives on this type. -/
structure CStr where
  size : Int
  content : List Int
  term : Int
  errors : List Int
deriving DecidableEq, Repr

/-- a zero-filled string buffer of capacity `cap` (what `memset` leaves) -/
def CStr.zero (cap : Nat) : CStr := ⟨0, List.replicate cap 0, 0, List.replicate cap 0⟩

/-- the value an out-of-range `rds->rt[i]` reads in the translation (undefined in C) -/
def CStr.empty : CStr := ⟨0, [], 0, []⟩

instance : Inhabited CStr := ⟨CStr.empty⟩

/-- One invoked callback: name (`callback_` stripped), the non-pointer arguments in order
(a `const rdsparser_ct_t *` argument contributes its fields), and the state the callback sees.
`σ` is instantiated with the generated `C_librdsparser`. -/
structure CEvent (σ : Type) where
  name : String
  args : List Int
  snap : σ
deriving DecidableEq, Repr

/-! ## lists indexed by C integers -/

/-- `a[i]` for an array of scalars (0 when out of range: undefined in C) -/
def getI (l : List Int) (i : Int) : Int := l.getD i.toNat 0
/-- `a[i]` for an array of arrays -/
def getL (l : List (List Int)) (i : Int) : List Int := l.getD i.toNat []
/-- `a[i]` for an array of packed strings -/
def getS (l : List CStr) (i : Int) : CStr := l.getD i.toNat CStr.empty
/-- `a[i] = v` -/
def listSet {α : Type} (l : List α) (i : Int) (v : α) : List α := l.set i.toNat v

/-- `for (T i = 0; i < n; i++) s = body s i` -/
def forRange {σ : Type} (n : Int) (init : σ) (body : σ → Int → σ) : σ :=
  (List.range n.toNat).foldl (fun s i => body s (Int.ofNat i)) init

/-! ## C strings and the three libc functions `src/utils.c` calls — TRUSTED MODELS

A NUL-terminated C string seen through a `const char *` is the `List Int` of its bytes *as
`unsigned char` values* (each 1..255) from the pointer up to, not including, the terminating
NUL. The NUL is implicit: the byte at offset `length` is 0 (`getI` yields 0 there), offsets
beyond it are outside the object. Hence `p + k` (for `k ≤ strlen p`) is `List.drop k`, and
reading the plain (signed, x86-64) `char` at offset `i` is `i8 (getI s i)`.

`libc_strlen`, `libc_isxdigit` and `libc_strtol16` are plain Lean definitions written from the
text of ISO C11 (§7.24.6.3, §7.4.1.12, §7.22.1.4) / POSIX for the "C" locale and a 64-bit `long`.
They are *assumed* to describe the libc the library is linked against; nothing in this project
proves that. They are deliberately as lenient as the real functions: `libc_strtol16` skips
white space, takes a sign and a `0x` prefix and clamps — the refinement proof
(`RdsProofs/TransUtils.lean`) has to show that the caller never reaches those paths. -/

/-- `strlen(s)`: the number of bytes before the NUL. -/
def libc_strlen (s : List Int) : Int := Int.ofNat s.length

/-- The value of a hexadecimal digit `0-9 A-F a-f` ("C" locale), `none` for any other byte. -/
def libc_hexval (c : Int) : Option Int :=
  if 48 ≤ c ∧ c ≤ 57 then some (c - 48)
  else if 65 ≤ c ∧ c ≤ 70 then some (c - 55)
  else if 97 ≤ c ∧ c ≤ 102 then some (c - 87)
  else none

/-- `isxdigit(c)` for `c` an `unsigned char` value or `EOF`: non-zero iff `c` is one of
`0-9 A-F a-f`. C specifies only zero / non-zero; the translator accepts the result in
truth-value contexts only, so the particular non-zero value chosen here (1) is unobservable. -/
def libc_isxdigit (c : Int) : Int := if (libc_hexval c).isSome then 1 else 0

/-- `isspace(c)` in the "C" locale: space, `\t \n \v \f \r`. -/
def libc_isspace (c : Int) : Bool := c == 32 || (decide (9 ≤ c) && decide (c ≤ 13))

/-- The longest initial run of hexadecimal digits of `s`, accumulated onto `acc`:
(value, number of digits consumed so far `n` + those consumed here). -/
def libc_hexrun : List Int → Int → Nat → Int × Nat
  | [], acc, n => (acc, n)
  | c :: cs, acc, n =>
    match libc_hexval c with
    | some v => libc_hexrun cs (acc * 16 + v) (n + 1)
    | none => (acc, n)

/-- The length of the optional `0x` / `0X` prefix of `strtol(…, 16)`: 2 if the string starts with
`0x`/`0X` *and a hexadecimal digit follows*, else 0 (then the `0` alone is the number). -/
def libc_hexprefix : List Int → Nat
  | 48 :: x :: d :: _ => if (x == 120 || x == 88) && (libc_hexval d).isSome then 2 else 0
  | _ => 0

/-- `LONG_MAX` / `LONG_MIN` of a 64-bit `long` -/
def libc_LONG_MAX : Int := 9223372036854775807
def libc_LONG_MIN : Int := -9223372036854775808

/-- `strtol(s, &end, 16)`: the returned `long` and the offset of `end` from `s`.
The subject sequence is: any amount of white space (`isspace`), an optional `+` or `-`, an
optional `0x`/`0X` (taken only if a hexadecimal digit follows; otherwise the `0` alone is the
number), then the longest run of hexadecimal digits. If there is no digit, no conversion is
performed: the value is 0 and `end = s`. Otherwise the value is the (negated, if `-`) number,
clamped to `LONG_MAX` / `LONG_MIN` when it is out of range (then `errno = ERANGE`, not modelled),
and `end` points just past the last digit. -/
def libc_strtol16 (s : List Int) : Int × Nat :=
  let ws := (s.takeWhile libc_isspace).length
  let s1 := s.drop ws
  let neg := s1.head? == some 45                                   -- '-'
  let sg := if s1.head? == some 45 || s1.head? == some 43 then 1 else 0   -- '-' or '+'
  let s2 := s1.drop sg
  let px := libc_hexprefix s2
  let r := libc_hexrun (s2.drop px) 0 0
  if r.2 = 0 then (0, 0)
  else
    let v := if neg then -r.1 else r.1
    (if v > libc_LONG_MAX then libc_LONG_MAX else if v < libc_LONG_MIN then libc_LONG_MIN else v,
     ws + sg + px + r.2)

/-- The C string held by a `char` array (elements are `char` values, −128..127): the bytes, as
`unsigned char`, before the first NUL. (Undefined in C if the array contains no NUL: the
translator records that side condition.) -/
def cstrOfChars (a : List Int) : List Int := (a.takeWhile (fun c => c != 0)).map u8

/-! ## lemmas -/

theorem u8_of_range {x : Int} (h0 : 0 ≤ x) (h1 : x < 256) : u8 x = x := by
  unfold u8; omega
theorem u16_of_range {x : Int} (h0 : 0 ≤ x) (h1 : x < 65536) : u16 x = x := by
  unfold u16; omega
theorem u32_of_range {x : Int} (h0 : 0 ≤ x) (h1 : x < 4294967296) : u32 x = x := by
  unfold u32; omega
theorem i8_of_range {x : Int} (h0 : -128 ≤ x) (h1 : x < 128) : i8 x = x := by
  unfold i8; omega
theorem i16_of_range {x : Int} (h0 : -32768 ≤ x) (h1 : x < 32768) : i16 x = x := by
  unfold i16; omega
theorem i32_of_range {x : Int} (h0 : -2147483648 ≤ x) (h1 : x < 2147483648) : i32 x = x := by
  unfold i32; omega

theorem u8_range (x : Int) : 0 ≤ u8 x ∧ u8 x < 256 := by unfold u8; omega
theorem u16_range (x : Int) : 0 ≤ u16 x ∧ u16 x < 65536 := by unfold u16; omega
theorem i8_range (x : Int) : -128 ≤ i8 x ∧ i8 x < 128 := by unfold i8; omega

@[simp] theorem u8_u8 (x : Int) : u8 (u8 x) = u8 x := by unfold u8; omega
@[simp] theorem u8_i8 (x : Int) : u8 (i8 x) = u8 x := by unfold u8 i8; omega
@[simp] theorem i8_u8 (x : Int) : i8 (u8 x) = i8 x := by unfold u8 i8; omega
@[simp] theorem u8_u16 (x : Int) : u8 (u16 x) = u8 x := by unfold u8 u16; omega

@[simp] theorem b2i_true : b2i true = 1 := rfl
@[simp] theorem b2i_false : b2i false = 0 := rfl
theorem b2i_ne_zero (b : Bool) : (b2i b != 0) = b := by cases b <;> rfl
@[simp] theorem b2i_ne_zero' (b : Bool) : (b2i b ≠ 0) ↔ b = true := by cases b <;> simp [b2i]
@[simp] theorem b2i_eq_zero (b : Bool) : (b2i b = 0) ↔ b = false := by cases b <;> simp [b2i]
@[simp] theorem b2i_eq_one (b : Bool) : (b2i b = 1) ↔ b = true := by cases b <;> simp [b2i]
theorem b2i_range (b : Bool) : 0 ≤ b2i b ∧ b2i b ≤ 1 := by cases b <;> simp [b2i]
theorem cbool_eq (x : Int) : cbool x = b2i (x != 0) := by
  unfold cbool b2i; by_cases h : x = 0 <;> simp [h]

/-! ### bit operations on naturals: masks and shifts are `/` and `%` -/

theorem band_natCast (a b : Nat) : band (a : Int) (b : Int) = ((a &&& b : Nat) : Int) := by
  simp [band]
theorem bor_natCast (a b : Nat) : bor (a : Int) (b : Int) = ((a ||| b : Nat) : Int) := by
  simp [bor]
theorem shr_natCast (a n : Nat) : shr (a : Int) (n : Int) = ((a >>> n : Nat) : Int) := by
  simp [shr]
theorem shl_natCast (a n : Nat) : shl (a : Int) (n : Int) = ((a <<< n : Nat) : Int) := by
  simp [shl]

theorem band_nonneg (x y : Int) : 0 ≤ band x y := by unfold band; exact Int.natCast_nonneg _
theorem bor_nonneg (x y : Int) : 0 ≤ bor x y := by unfold bor; exact Int.natCast_nonneg _
theorem shr_nonneg (x n : Int) : 0 ≤ shr x n := by unfold shr; exact Int.natCast_nonneg _
theorem shl_nonneg (x n : Int) : 0 ≤ shl x n := by unfold shl; exact Int.natCast_nonneg _

/-- `a & (2^k - 1) = a % 2^k` -/
theorem nat_and_lowmask (a k : Nat) : a &&& (2 ^ k - 1) = a % 2 ^ k := Nat.and_two_pow_sub_one_eq_mod a k

/-- `a >> n = a / 2^n` -/
theorem nat_shr (a n : Nat) : a >>> n = a / 2 ^ n := Nat.shiftRight_eq_div_pow a n

/-- `a << n = a * 2^n` -/
theorem nat_shl (a n : Nat) : a <<< n = a * 2 ^ n := Nat.shiftLeft_eq a n

/-! ### truncating division on non-negative numerators -/

theorem tdiv_of_nonneg {a : Int} (b : Int) (h : 0 ≤ a) : Int.tdiv a b = a / b :=
  Int.tdiv_eq_ediv_of_nonneg h
theorem tmod_of_nonneg {a : Int} (b : Int) (h : 0 ≤ a) : Int.tmod a b = a % b :=
  Int.tmod_eq_emod_of_nonneg h

/-! ### list access -/

@[simp] theorem getI_natCast (l : List Int) (n : Nat) : getI l (n : Int) = l.getD n 0 := by
  simp [getI]
@[simp] theorem listSet_natCast {α : Type} (l : List α) (n : Nat) (v : α) :
    listSet l (n : Int) v = l.set n v := by simp [listSet]
@[simp] theorem length_listSet {α : Type} (l : List α) (i : Int) (v : α) :
    (listSet l i v).length = l.length := by simp [listSet]

theorem forRange_eq {σ : Type} (n : Nat) (init : σ) (body : σ → Int → σ) :
    forRange (n : Int) init body =
      (List.range n).foldl (fun s (i : Nat) => body s (i : Int)) init := by
  simp [forRange]

end RDS.C
