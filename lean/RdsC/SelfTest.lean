import RdsC.Prelude
import RdsC.Translated
import RdsModel.Step
import RdsModel.Generated
/-!
# RdsC.SelfTest — executable sanity check of `tools/c2lean.py` (C2LEAN_SPEC §8.2)

Runs the *translated* `c_rdsparser_init` / setters / `c_rdsparser_parser_process` and the
hand-written model (`RDS.process (RDS.Generated.cfg unicode)` from `RDS.initState`) on the same
pseudo-random groups and compares, after every group, everything the getters of the library
show: the seven scalars and the AF bitmap (used *and* temp buffers), the four texts
(characters and per-character error levels, sizes, terminators), the last RT flag, the settings,
and the callbacks invoked by that group (name, arguments — the clock time through the
translated `rdsparser_ct_get_*` — and the state each callback sees).

The tables of the translated code come from the C source (`c_rdsparser_string_convert_charset`,
`c_rdsparser_ecc_*_lut`); the model's come from the compiled library (`RDS.Generated`).

This is a test of the translator, not a proof. `#eval selfTest` must print `true`.
-/
namespace RDS.C.SelfTest
open RDS RDS.C

/-! ## pseudo-random groups -/

def lcg (s : Nat) : Nat := (s * 6364136223846793005 + 1442695040888963407) % 18446744073709551616

/-- `n` successive outputs (upper bits) and the new seed -/
def draws : Nat → Nat → List Nat × Nat
  | 0, s => ([], s)
  | n + 1, s => let s' := lcg s; let r := draws n s'; ((s' / 4294967296) :: r.1, r.2)

def errCode (r : Nat) : Nat := if r % 8 < 5 then 0 else r % 8 - 4

def char (r : Nat) : Nat :=
  let k := r % 16
  let x := r / 16
  if k < 9 then 0x20 + x % 95
  else if k = 9 then 0x0D
  else if k < 12 then 0x7F + x % 129
  else if k = 12 then x % 0x20
  else if k = 13 then 0x41
  else if k = 14 then 0x20
  else x % 256

def pis : List Nat := [0x3201, 0x1234, 0xD318, 0xF212, 0x0123, 0xE0AB, 0xA455, 0x7001]
def eccs : List Nat := [0xA0, 0xA1, 0xA2, 0xA6, 0xD0, 0xD3, 0xE0, 0xE1, 0xE2, 0xE3, 0xE5, 0xF0, 0xF2, 0xF4, 0xE6, 0x00]
def types : List Nat := [0, 0, 0, 2, 2, 2, 2, 1, 1, 4, 4, 10, 10, 10, 3, 15]

/-- group number `i` of a stream -/
def mkGroup (i : Nat) (r : List Nat) : Group :=
  let g := fun k => r.getD k 0
  let ty := if g 0 % 13 = 0 then g 0 / 13 % 16 else types.getD (g 0 % 16) 0
  let ver := if g 1 % 8 = 0 then 1 else 0
  let a := if g 2 % 16 = 0 then g 2 / 16 % 65536 else pis.getD (i / 40 % 8) 0
  let x := g 3 % 2048
  -- keep the RT A/B flag stable for stretches so that radiotext accumulates
  let x := if ty = 2 ∧ g 3 / 2048 % 8 ≠ 0 then x - (x / 16 % 2) * 16 + (i / 64 % 2) * 16 else x
  let b := ty * 4096 + ver * 2048 + x
  let two := char (g 4) * 256 + char (g 5)
  let c :=
    if ty = 1 then (if g 6 % 4 = 0 then g 6 / 4 % 65536 else (g 6 / 4 % 2) * 0x8000 + eccs.getD ((i / 30 + (if g 6 / 8 % 8 = 0 then g 6 / 64 else 0)) % 16) 0)
    else if ty = 4 then g 6 % 65536
    else if ty = 0 ∧ ver = 0 then (if g 6 % 8 = 0 then 250 * 256 + g 6 / 8 % 256 else g 6 % 65536)
    else two
  let d :=
    if ty = 4 then (if g 7 % 3 = 0 then g 7 / 3 % 65536 else (g 7 / 3 % 24) * 4096 + (g 7 / 72 % 60) * 64 + g 7 / 4320 % 64)
    else char (g 8) * 256 + char (g 9)
  ⟨a, b, c, d, errCode (g 10), errCode (g 11), errCode (g 12), errCode (g 13)⟩

/-! ## comparing the two states -/

/-- the 26-byte MSB-first bitmap as the model's list of 208 booleans (index = AF code) -/
def bitsOf (bytes : List Int) : List Bool :=
  (List.range 208).map fun v => (bytes.getD (v / 8) 0).toNat &&& (128 >>> (v % 8)) != 0

def sameScalars (c : C_rdsparser_buffer_data) (m : Scalars) : Bool :=
  c.pi == m.pi && c.pty == m.pty && c.tp == m.tp && c.ta == m.ta && c.ms == m.ms &&
  c.ecc == m.ecc && c.country == m.country && c.af.buffer.length == 26 && bitsOf c.af.buffer == m.af

def sameText (c : CStr) (m : Text) (term : Nat) : Bool :=
  c.size == (m.length : Int) && c.content == m.map (fun x => (x.ch : Int)) &&
  c.errors == m.map (fun x => (x.lvl : Int)) && c.term == (term : Int) &&
  -- the two getters that are translated
  c_rdsparser_string_get_length c == (getLength m : Int) &&
  c_rdsparser_string_get_available c == b2i (getAvailable m)

def cbFields (c : C_librdsparser) : List Int :=
  [c.callback_pi, c.callback_pty, c.callback_tp, c.callback_ta, c.callback_ms, c.callback_ecc,
   c.callback_country, c.callback_af, c.callback_ps, c.callback_rt, c.callback_ptyn, c.callback_ct]

def sameState (c : C_librdsparser) (m : State) : Bool :=
  sameScalars c.buffer.data_used m.used && sameScalars c.buffer.data_temp m.temp &&
  -- through the translated getters as well
  c_rdsparser_get_pi c == m.used.pi && c_rdsparser_get_pty c == m.used.pty &&
  c_rdsparser_get_tp c == m.used.tp && c_rdsparser_get_ta c == m.used.ta &&
  c_rdsparser_get_ms c == m.used.ms && c_rdsparser_get_ecc c == m.used.ecc &&
  c_rdsparser_get_country c == m.used.country && bitsOf (c_rdsparser_get_af c).buffer == m.used.af &&
  sameText (c_rdsparser_get_ps c) m.ps m.termPs && sameText (c_rdsparser_get_rt c 0) m.rt0 m.termRt0 &&
  sameText (c_rdsparser_get_rt c 1) m.rt1 m.termRt1 && sameText (c_rdsparser_get_ptyn c) m.ptyn m.termPtyn &&
  c.rt.length == 2 && c.last_rt_flag == m.lastRt &&
  c_rdsparser_get_extended_check c == b2i m.set.ext &&
  [TextId.ps, .rt, .ptyn].zipIdx.all (fun (t, i) =>
    c_rdsparser_get_text_progressive c i == b2i (m.set.prog t) &&
    c_rdsparser_get_text_correction c i 0 == (m.set.corr t .info : Int) &&
    c_rdsparser_get_text_correction c i 1 == (m.set.corr t .data : Int)) &&
  (cbFields c).map (· != 0) == m.cbs && c.user_data == (m.ud : Int)

def ctOfArgs (a : List Int) : C_rdsparser_ct :=
  ⟨a.getD 0 0, a.getD 1 0, a.getD 2 0, a.getD 3 0, a.getD 4 0, a.getD 5 0⟩

/-- one translated callback against one model event -/
def sameEvent (c : CEvent C_librdsparser) (m : Event) : Bool :=
  sameState c.snap m.snap &&
  (match m.kind with
   | .pi => c.name == "pi" && c.args == [(m.ud : Int)]
   | .pty => c.name == "pty" && c.args == [(m.ud : Int)]
   | .tp => c.name == "tp" && c.args == [(m.ud : Int)]
   | .ta => c.name == "ta" && c.args == [(m.ud : Int)]
   | .ms => c.name == "ms" && c.args == [(m.ud : Int)]
   | .ecc => c.name == "ecc" && c.args == [(m.ud : Int)]
   | .country => c.name == "country" && c.args == [(m.ud : Int)]
   | .af khz => c.name == "af" && c.args == [(khz : Int), (m.ud : Int)]
   | .ps => c.name == "ps" && c.args == [(m.ud : Int)]
   | .rt f => c.name == "rt" && c.args == [(f : Int), (m.ud : Int)]
   | .ptyn => c.name == "ptyn" && c.args == [(m.ud : Int)]
   | .ct v =>
     let ct := ctOfArgs c.args
     c.name == "ct" && c.args.length == 7 && c.args.getD 6 0 == (m.ud : Int) &&
     c_rdsparser_ct_get_year ct == v.year && c_rdsparser_ct_get_month ct == v.month &&
     c_rdsparser_ct_get_day ct == v.day && c_rdsparser_ct_get_hour ct == v.hour &&
     c_rdsparser_ct_get_minute ct == v.minute && c_rdsparser_ct_get_offset ct == v.offsetMin)

def sameEvents : List (CEvent C_librdsparser) → List Event → Bool
  | [], [] => true
  | c :: cs, m :: ms => sameEvent c m && sameEvents cs ms
  | _, _ => false

/-! ## configurations -/

/-- a run: which build, which callbacks, which settings (applied through the translated setters
and the model's `step`) -/
structure Run where
  unicode : Bool
  seed : Nat
  groups : Nat
  cbMask : Nat          -- bit k = callback `Cb.idx = k` registered
  ud : Nat
  ext : Bool
  prog : List Bool      -- ps, rt, ptyn
  corr : List (Nat × Nat)   -- (info, data) for ps, rt, ptyn; values above 2 are clamped by the setter

def regC (c : C_librdsparser) (k : Nat) (v : Int) : C_librdsparser :=
  match k with
  | 0 => c_rdsparser_register_pi c v | 1 => c_rdsparser_register_pty c v
  | 2 => c_rdsparser_register_tp c v | 3 => c_rdsparser_register_ta c v
  | 4 => c_rdsparser_register_ms c v | 5 => c_rdsparser_register_ecc c v
  | 6 => c_rdsparser_register_country c v | 7 => c_rdsparser_register_af c v
  | 8 => c_rdsparser_register_ps c v | 9 => c_rdsparser_register_rt c v
  | 10 => c_rdsparser_register_ptyn c v | _ => c_rdsparser_register_ct c v

def allCbs : List Cb := [.pi, .pty, .tp, .ta, .ms, .ecc, .country, .af, .ps, .rt, .ptyn, .ct]
def texts : List TextId := [.ps, .rt, .ptyn]

def setupC (r : Run) : C_librdsparser :=
  -- start from garbage to see that `init` overwrites everything
  let c := c_rdsparser_init { C_librdsparser.zero with last_rt_flag := 1, user_data := 99 }
  let c := (List.range 12).foldl (fun c k => if r.cbMask / 2 ^ k % 2 = 1 then regC c k (1000 + k) else c) c
  let c := c_rdsparser_set_user_data c r.ud
  let c := c_rdsparser_set_extended_check c (b2i r.ext)
  let c := (List.range 3).foldl (fun c (t : Nat) =>
    let c := c_rdsparser_set_text_progressive c (t : Nat) (b2i (r.prog.getD t false))
    let c := c_rdsparser_set_text_correction c (t : Nat) 0 ((r.corr.getD t (0, 0)).1 : Nat)
    c_rdsparser_set_text_correction c (t : Nat) 1 ((r.corr.getD t (0, 0)).2 : Nat)) c
  c

def setupM (r : Run) : State :=
  let cfg := Generated.cfg r.unicode
  let ops : List Op :=
    [.init] ++ (allCbs.filter fun c => r.cbMask / 2 ^ c.idx % 2 = 1).map (fun c => Op.register c true) ++
    [.userData r.ud, .setExt r.ext] ++
    (texts.zipIdx.flatMap fun (t, i) =>
      [Op.setProg t (r.prog.getD i false), .setCorr t .info (r.corr.getD i (0, 0)).1,
       .setCorr t .data (r.corr.getD i (0, 0)).2])
  runFrom cfg initState ops

/-- feed `n` groups to both; `false` at the first disagreement -/
def feed (unicode : Bool) : Nat → Nat → Nat → C_librdsparser → State → Bool
  | 0, _, _, _, _ => true
  | n + 1, i, seed, c, m =>
    let d := draws 14 seed
    let g := mkGroup i d.1
    let rc := c_rdsparser_parse unicode c [g.a, g.b, g.c, g.d] [g.ea, g.eb, g.ec, g.ed] []
    let rm := process (Generated.cfg unicode) m g
    sameState rc.1 rm.1 && sameEvents rc.2 rm.2 && feed unicode n (i + 1) d.2 rc.1 rm.1

def runOne (r : Run) : Bool :=
  let c := setupC r
  let m := setupM r
  sameState c m && feed r.unicode r.groups 0 r.seed c m &&
  -- `rdsparser_clear` after some traffic
  (let d := draws 14 (r.seed + 1)
   let g := mkGroup 0 d.1
   let c1 := (c_rdsparser_parse r.unicode c [g.a, g.b, g.c, g.d] [0, 0, 0, 0] []).1
   let m1 := (process (Generated.cfg r.unicode) m { g with ea := 0, eb := 0, ec := 0, ed := 0 }).1
   sameState (c_rdsparser_clear c1) (clearState m1))

def runs : List Run :=
  [ ⟨true, 1, 700, 4095, 7, false, [false, false, false], [(0, 0), (0, 0), (0, 0)]⟩,
    ⟨false, 2, 500, 4095, 7, false, [false, false, false], [(0, 0), (0, 0), (0, 0)]⟩,
    ⟨true, 3, 700, 4095, 0, true, [false, false, false], [(2, 2), (2, 2), (2, 2)]⟩,
    ⟨false, 4, 500, 4095, 3, true, [true, true, true], [(2, 1), (1, 2), (5, 3)]⟩,
    ⟨true, 5, 700, 4095, 65535, false, [true, false, true], [(1, 1), (2, 0), (0, 2)]⟩,
    ⟨true, 6, 500, 0xA5A, 1, true, [false, true, false], [(1, 2), (2, 2), (2, 1)]⟩,
    ⟨false, 7, 400, 0, 1, false, [true, true, false], [(2, 2), (1, 1), (1, 0)]⟩,
    ⟨true, 8, 600, 4095, 12, false, [true, true, true], [(2, 2), (2, 2), (2, 2)]⟩ ]

/-- the bit-field getters and `rdsparser_ecc_lookup` on their own: every table cell -/
def eccTableAgrees : Bool :=
  (List.range 16).all fun nib => (List.range 256).all fun e =>
    c_rdsparser_ecc_lookup (nib * 4096 + 0x123 : Nat) (e : Nat) == (Generated.cfg true).ecc nib e ||
    nib == 0

def charsetAgrees : Bool :=
  (List.range 256).all fun b =>
    c_rdsparser_string_convert true (b : Nat) == (conv (Generated.cfg true) b : Int) &&
    (0x7F ≤ b || c_rdsparser_string_convert false (b : Nat) == (conv (Generated.cfg false) b : Int))

/-- `rdsparser_utils_convert` (translated, on the libc models of the Prelude) against `utilsConvert`: valid 16 / 18
digits in both cases, white space, signs, `0x`, wrong lengths, non-digits, a tail that `strtol` alone would accept -/
def hexStrings : List String :=
  ["0123456789abcdef", "0123456789ABCDEF", "32011234D318F212", "32011234D318F2121b", "32011234D318F212E4", "FFFFFFFFFFFFFFFFff",
   " 234567890123456", "\t234ABCD5678ef90", "-234567890123456", "+234567890123456", "0x12345678901234", "1234 678901234567",
   "12340x1290123456", "1234567890123456-1", "1234567890123456 1", "1234567890123456+f", "12345678901234560x", "",
   "0123456789abcde", "0123456789abcdef0", "0123456789abcdef012", "0123456789abcdeg", "g123456789abcdef", "0123456789abcdefzz",
   "0123456789abcdef 1", "01234567\n9abcdef", "0X123456789abcde", "-0x1234567890123", "0123456789ABCDEF7f"]

def hexAgrees : Bool :=
  hexStrings.all fun str =>
    let bytes := str.toUTF8.toList.map (·.toNat)
    let out := c_rdsparser_utils_convert (bytes.map Int.ofNat) [7, 7, 7, 7] [9, 9, 9, 9]
    match utilsConvert bytes with
    | none => out.1 == 0
    | some g => out == (1, [(g.a : Int), g.b, g.c, g.d], [(g.ea : Int), g.eb, g.ec, g.ed])

/-- ... and `rdsparser_parse_string` on NULL and on a rejected string leaves state and log alone -/
def parseStringAgrees : Bool :=
  let c := c_rdsparser_init C_librdsparser.zero
  c_rdsparser_parse_string true c none [] == (0, c, []) &&
  c_rdsparser_parse_string true c (some [32, 50, 51]) [] == (0, c, []) &&
  (c_rdsparser_parse_string true c (some ("32011234D318F212".toUTF8.toList.map (fun b => (b.toNat : Int)))) []).1 == 1 &&
  (c_rdsparser_parse_string true c (some ("32011234D318F212".toUTF8.toList.map (fun b => (b.toNat : Int)))) []).2 ==
    c_rdsparser_parse true c [0x3201, 0x1234, 0xD318, 0xF212] [0, 0, 0, 0] []

def results : List Bool := runs.map runOne ++ [eccTableAgrees, charsetAgrees, hexAgrees, parseStringAgrees]

def selfTest : Bool := results.all id

end RDS.C.SelfTest

#eval RDS.C.SelfTest.results
#eval RDS.C.SelfTest.selfTest
