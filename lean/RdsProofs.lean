import RdsProofs.Frame
import RdsProofs.Inv
