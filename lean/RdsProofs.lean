import RdsProofs.Frame
import RdsProofs.Inv
import RdsProofs.WFBase
import RdsProofs.WFProofs
import RdsProofs.C03Proofs
