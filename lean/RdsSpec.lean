import RdsSpec.Trace
import RdsSpec.OpsFile
import RdsSpec.TraceParse
import RdsSpec.Monitors
import RdsSpec.Statements
import RdsSpec.Reference
import RdsSpec.TableCheck
import RdsSpec.Worded
