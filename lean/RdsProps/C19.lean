import RdsProofs.Reach
import RdsProofs.C19Proofs
/-!
# Property C19 — parser instances are isolated and deterministic (model level)

Model-level part of C19 (the content of C19 for the *implementation* — no state outside the struct, no data race —
is what the multi-instance correspondence, the writable-segment check and TSan exercise). `C19_isolation`: for every
interleaved schedule of operations on up to 8 slots, what slot i holds afterwards equals the result of its own operations
alone. `C19_other_slots`/`C19_select`/`C19_cur`: one operation changes only the current slot and does there exactly what a
solo parser does.
-/
-- THEOREM: RDS.C19_isolation
-- THEOREM: RDS.C19_other_slots
-- THEOREM: RDS.C19_select
-- THEOREM: RDS.C19_cur
namespace RDS


end RDS
