import RdsProofs.C14RoundTrip
import RdsProofs.Reach
import RdsProofs.C14Proofs
/-!
# Property C14 — hex-string input is strictly validated and equivalent to binary input

`C14_accept_iff`: the string is accepted exactly when it consists of 16 or 18 hexadecimal digits (either case) and
nothing else. `C14_decoded`: the decoded blocks are the positional values of the four 4-digit fields and the error levels are
the four 2-bit fields of the trailing byte (all zero when absent). `C14_equiv`: an accepted string has exactly the effect of
`rdsparser_parse` with the decoded group (same successor state, same callbacks, result true). `C14_reject`: every other input,
including NULL, returns false, fires no callback and leaves the state untouched. `C14` = `chkC14` for every history.
-/
-- THEOREM: RDS.C14
-- THEOREM: RDS.C14_accept_iff
-- THEOREM: RDS.C14_decoded
-- THEOREM: RDS.C14_equiv
-- THEOREM: RDS.C14_reject
-- THEOREM: RDS.C14_roundtrip18
-- THEOREM: RDS.C14_roundtrip16
-- THEOREM: RDS.C14_string_reaches
-- THEOREM: RDS.hexNum4
-- THEOREM: RDS.hexVal_digit
namespace RDS

/-- C14 for every history and every next call -/
theorem C14 (cfg : Cfg) (ops : List Op) (op : Op) : chkC14 (recOf cfg (run cfg ops) op) = true :=
  chkC14_ok cfg _ op

end RDS
