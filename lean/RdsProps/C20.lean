import RdsProps.Instantiated
import RdsProofs.TableC20
/-!
# Property C20 — all four build configurations decode identically (modulo charset width)

What is proved (the check additionally compares the four real builds against each other and against their own instantiation
of the model on every run):
* every history theorem C01…C17 holds for an arbitrary configuration `tb`, and `*_generated` (RdsProps/Instantiated.lean)
  instantiate them for the tables of the compiled library in BOTH charset configurations: each build satisfies the same contract;
* `C20_narrow_table` / `C20_narrow_is_conv`: the non-unicode build stores the raw byte for 0x20..0x7E and a space for 0x7F and
  above — read out of the real narrow build and equal to the model's `conv` with `unicode = false`;
* `C20_consts`: both builds report the same compile-time constants, ECC table and lookup tables;
* `C20_g0_ascii`, `C20_g0_injective_ascii`: the charset table restricted to 0x20..0x7E is injective, keeps the space and
  never yields the end-of-text marker (the premise `G0Ascii` of `C20_ascii`);
* the no-heap configuration does not occur in the model at all: `RDSPARSER_DISABLE_HEAP` only removes `new`/`free`.
* `C20_full_false` — KNOWN FINDING: the statement "every level and callback is identical" is false. Witness (measured on the
  two real builds, and here on the two instantiations): PS data threshold 2; 0A address 0 with D = 0x8080 error-free; then
  D = 0x2020 with block-D error level 2. The wide build fires two PS callbacks and ends at level 5, the narrow build fires one
  and stays at level 0, because "identical data" is compared on converted characters and the narrow build has collapsed 0x80 to
  a space. The partial statements that do hold are `C20_ascii` (lock step modulo the embedding when no byte ≥ 0x7F is
  presented) and `C20_nontext` (everything but text characters/levels, for all histories) in RdsProofs/C20Proofs.lean.
-/
-- THEOREM: RDS.C20_full_false
-- THEOREM: RDS.C20_narrow_table
-- THEOREM: RDS.C20_narrow_is_conv
-- THEOREM: RDS.C20_consts
-- THEOREM: RDS.C20_g0_ascii
-- THEOREM: RDS.C20_g0_injective_ascii
-- THEOREM: RDS.C01_generated
-- THEOREM: RDS.C02_generated
-- THEOREM: RDS.C04_generated
-- THEOREM: RDS.C09_generated
-- THEOREM: RDS.C16_generated
-- THEOREM: RDS.C17_generated
namespace RDS

def c20Witness : List Op :=
  [.register .ps true, .setCorr .ps .data 2,
   .parse ⟨0x1234, 0x0000, 0, 0x8080, 0, 0, 0, 0⟩,
   .parse ⟨0x1234, 0x0000, 0, 0x2020, 0, 0, 0, 2⟩]

def psCallbacks (cfg : Cfg) (ops : List Op) : Nat :=
  ((trace cfg initState ops).map (fun r => (r.2.1.filter (fun e => e.kind == .ps)).length)).foldl (· + ·) 0

def cell0Level (cfg : Cfg) (ops : List Op) : Option Nat := (run cfg ops).ps[0]?.map (·.lvl)

/-- the full statement of C20 ("every level and callback identical") fails on this history -/
theorem C20_full_false :
    psCallbacks (Generated.cfg true) c20Witness = 2 ∧ psCallbacks (Generated.cfg false) c20Witness = 1 ∧
    cell0Level (Generated.cfg true) c20Witness = some 5 ∧ cell0Level (Generated.cfg false) c20Witness = some 0 := by
  decide +kernel

end RDS
