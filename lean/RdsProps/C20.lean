import RdsProps.Instantiated
import RdsProofs.TableC20
import RdsProofs.C20Proofs
import RdsProofs.AuditC03C20
/-!
# Property C20 — all four build configurations decode identically (modulo charset width)

What is proved (the check additionally compares the four real builds against each other and against their own instantiation
of the model on every run):
* every history theorem C01…C17 holds for an arbitrary configuration `tb`, and `*_generated` (RdsProps/Instantiated.lean)
  instantiate them for the tables of the compiled library in BOTH charset configurations: each build satisfies the same contract;
* `C20_narrow_table` / `C20_narrow_is_conv`: the non-unicode build stores the raw byte for 0x20..0x7E and a space for 0x7F and
  above — read out of the real narrow build and equal to the model's `conv` with `unicode = false`;
* `C20_consts`: both builds report the same compile-time constants, ECC table and lookup tables;
* `C20_g0_ascii`, `C20_g0_injective_ascii`: the charset table restricted to 0x20..0x7E is injective, keeps the space and
  never yields the end-of-text marker (the premise `G0Ascii` of `C20_ascii`);
* the no-heap configuration does not occur in the model at all: `RDSPARSER_DISABLE_HEAP` only removes `new`/`free`.
* `C20_full_false` — KNOWN FINDING: the statement "every level and callback is identical" is false. Witness (measured on the
  two real builds, and here on the two instantiations): PS data threshold 2; 0A address 0 with D = 0x8080 error-free; then
  D = 0x2020 with block-D error level 2. The wide build fires two PS callbacks and ends at level 5, the narrow build fires one
  and stays at level 0, because "identical data" is compared on converted characters and the narrow build has collapsed 0x80 to
  a space. The partial statements that do hold are `C20_ascii` (lock step modulo the embedding when no byte ≥ 0x7F is
  presented) and `C20_nontext` (everything but text characters/levels, for all histories) in RdsProofs/C20Proofs.lean.
-/
-- THEOREM: RDS.C20_full_false
-- THEOREM: RDS.C20_ascii
-- THEOREM: RDS.C20_ascii_step
-- THEOREM: RDS.C20_ascii'
-- THEOREM: RDS.C20_ascii_step'
-- THEOREM: RDS.ac3_C20_sharp
-- THEOREM: RDS.C20_nontext
-- THEOREM: RDS.C20_nontext_step
-- THEOREM: RDS.C20_ascii_generated
-- THEOREM: RDS.C20_nontext_generated
-- THEOREM: RDS.C20_narrow_table
-- THEOREM: RDS.C20_narrow_is_conv
-- THEOREM: RDS.C20_consts
-- THEOREM: RDS.C20_g0_ascii
-- THEOREM: RDS.C20_g0_injective_ascii
-- THEOREM: RDS.C01_generated
-- THEOREM: RDS.C02_generated
-- THEOREM: RDS.C04_generated
-- THEOREM: RDS.C09_generated
-- THEOREM: RDS.C16_generated
-- THEOREM: RDS.C17_generated
namespace RDS

def c20Witness : List Op :=
  [.register .ps true, .setCorr .ps .data 2,
   .parse ⟨0x1234, 0x0000, 0, 0x8080, 0, 0, 0, 0⟩,
   .parse ⟨0x1234, 0x0000, 0, 0x2020, 0, 0, 0, 2⟩]

def psCallbacks (cfg : Cfg) (ops : List Op) : Nat :=
  ((trace cfg initState ops).map (fun r => (r.2.1.filter (fun e => e.kind == .ps)).length)).foldl (· + ·) 0

def cell0Level (cfg : Cfg) (ops : List Op) : Option Nat := (run cfg ops).ps[0]?.map (·.lvl)

/-- the full statement of C20 ("every level and callback identical") fails on this history -/
theorem C20_full_false :
    psCallbacks (Generated.cfg true) c20Witness = 2 ∧ psCallbacks (Generated.cfg false) c20Witness = 1 ∧
    cell0Level (Generated.cfg true) c20Witness = some 5 ∧ cell0Level (Generated.cfg false) c20Witness = some 0 := by
  decide +kernel

theorem g0_getD_any (b : Nat) (hb : b < 256) (d d' : Nat) : Generated.g0.getD b d = Generated.g0.getD b d' := by
  have hl : Generated.g0.length = 256 := tbl_generated_lengths.1
  simp [List.getD_eq_getElem?_getD, List.getElem?_eq_getElem (by omega : b < Generated.g0.length)]

/-- the regenerated charset table satisfies the premise of `C20_ascii` -/
theorem g0Ascii_generated (u : Bool) : G0Ascii (Generated.cfg u) := by
  obtain ⟨hinj, h20, hnz⟩ := C20_g0_injective_ascii
  refine ⟨?_, ?_, ?_⟩
  · show Generated.g0.getD 0x20 0x20 = 0x20
    rw [g0_getD_any 0x20 (by omega) 0x20 0]; exact h20
  · intro b h1 h2
    show Generated.g0.getD b 0x20 ≠ 0
    rw [g0_getD_any b (by omega) 0x20 0]; exact hnz b h1 h2
  · intro b c hb1 hb2 hc1 hc2 heq
    have heq' : Generated.g0.getD b 0x20 = Generated.g0.getD c 0x20 := heq
    rw [g0_getD_any b (by omega) 0x20 0, g0_getD_any c (by omega) 0x20 0] at heq'
    exact hinj b c hb1 hb2 hc1 hc2 heq'

/-- C20 (A) for the compiled library's tables: on histories that never present a byte ≥ 0x7F the narrow build's state,
seen through the character embedding, IS the wide build's state -/
theorem C20_ascii_generated (ops : List Op) (ha : ∀ op ∈ ops, op.asciiOnly = true) :
    embedState (Generated.cfg true) (run (Generated.cfg true).narrow ops) = run (Generated.cfg true).wide ops :=
  C20_ascii (Generated.cfg true) (g0Ascii_generated true) ops ha

/-- C20 (B) for the compiled library's tables, all histories -/
theorem C20_nontext_generated (ops : List Op) :
    nonText (run (Generated.cfg true).narrow ops) = nonText (run (Generated.cfg true).wide ops) :=
  C20_nontext ⟨Generated.cfg true, Generated.countryCount⟩ (eccOk true) ops

end RDS
