import RdsProofs.Reach
import RdsProofs.CellsProofs
import RdsProofs.TableC02
import RdsProofs.RefineProofs
/-!
# Property C02 — PS/RT/PTYN characters land in the addressed cells via the RDS charset

`chkCells` states, for all four text buffers at once, that after a delivered group every cell equals
`expectedText`: addressed cells (table `addressed`, C02's list of positions) are the closed form `cellSpec` of the old
cell and the received byte; every other cell of every text is unchanged (apart from an RT A/B switch first emptying
the selected buffer). `C02_error_free` is the property's wording for an error-free reception. The charset itself
(`cfg.g0` = the RDS G0 table) is the table theorem `C02_charset` of RdsProofs/TableC02.lean: the table read out of the compiled library (every byte, every lane,
lane-independent) equals the hand-written RDS G0 reference; `C02_stored`: exactly 0x0D and bytes ≥ 0x20 are stored.
-/
-- THEOREM: RDS.C02
-- THEOREM: RDS.C02_closed_form
-- THEOREM: RDS.C02_error_free
-- THEOREM: RDS.updateSingle_cellSpec
-- THEOREM: RDS.C02_charset
-- THEOREM: RDS.C02_stored
-- THEOREM: RDS.C02_eol
-- THEOREM: RDS.C02_no_nul
-- THEOREM: RDS.C02_lane_independent
namespace RDS

/-- C02 for every history and every next call: `chkC02` is exactly what C02 states (a non-addressed cell never
changes; an addressed cell keeps its content or holds the table image of the received byte; with error-free blocks
it holds exactly the end-of-text marker / old content / table image at level 0) -/
theorem C02 (tb : Tabs) (h : EccOk tb) (ops : List Op) (op : Op) :
    chkC02 tb.cfg (monAfter tb.cfg ops) (recOf tb.cfg (run tb.cfg ops) op) = true := by
  have hr := reach tb h ops
  exact chkC02_ok tb _ _ op hr.1 hr.2

/-- the complete closed form of all four texts after any call (C02 ∧ C06 ∧ C07 ∧ C08 together) -/
theorem C02_closed_form (tb : Tabs) (h : EccOk tb) (ops : List Op) (op : Op) :
    chkCells tb.cfg (monAfter tb.cfg ops) (recOf tb.cfg (run tb.cfg ops) op) = true := by
  have hr := reach tb h ops
  exact chkCells_ok tb _ _ op hr.1 hr.2

/-- with error-free blocks an addressed cell becomes: end-of-text marker for 0x0D, unchanged for control codes
below 0x20, otherwise the converted character at level 0 -/
theorem C02_error_free (cfg : Cfg) (info data : Nat) (prog : Bool) (old : Cell) (b : Nat) :
    cellSpec cfg info data prog old b 0 0 =
      if b = 0x0D then ⟨0, 0⟩ else if b < 0x20 then old else ⟨conv cfg b, 0⟩ := by
  obtain ⟨ch, lvl⟩ := old
  unfold cellSpec
  by_cases h1 : b = 0x0D
  · subst h1
    have hc : conv cfg 13 = 0 := by simp [conv]
    by_cases h : ch = 0 ∧ lvl = 0
    · obtain ⟨ha, hb⟩ := h; subst ha; subst hb; simp [hc]
    · simp [hc]
      intro hx hy; exact absurd ⟨hx.symm, hy⟩ h
  · by_cases h2 : b < 0x20
    · have : ¬ (0x20 ≤ b) := by omega
      simp [h1, h2, this]
    · have h3 : 0x20 ≤ b := by omega
      by_cases h : conv cfg b = ch ∧ lvl = 0
      · obtain ⟨ha, hb⟩ := h; subst ha; subst hb; simp [h1, h2]
      · simp [h1, h2, h3]
        intro hx hy; exact absurd ⟨hx, hy⟩ h

end RDS
