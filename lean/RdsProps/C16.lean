import RdsProofs.Reach
import RdsProofs.WFProofs
import RdsProofs.AuditC05C16
/-!
# Property C16 — text buffers are always well-formed, printable and terminated

`C16` = `chkC16` for every history: after every API call each of the four texts has its fixed capacity, terminator 0
directly after it, levels ≤ 10, a never-received cell (level 10) holds a space, every other cell is the end-of-text marker or
in the image of the character conversion, availability = "some cell has level ≠ 10", length = index of the first end-of-text
marker or else the capacity. `wf_run` is the underlying invariant `WF` for every reachable state.
-/
-- THEOREM: RDS.C16
-- THEOREM: RDS.wf_run
-- THEOREM: RDS.C16_level_received
-- THEOREM: RDS.C16_level_received_exists
-- THEOREM: RDS.C16_available_received
namespace RDS

/-- C16 for every history and every next call -/
theorem C16 (tb : Tabs) (h : EccOk tb) (ops : List Op) (op : Op) :
    chkC16 tb.cfg (recOf tb.cfg (run tb.cfg ops) op) = true :=
  chkC16_ok tb _ op (wf_step tb h _ op (reach tb h ops).2)

end RDS
