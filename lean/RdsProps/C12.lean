import RdsProofs.Reach
import RdsProofs.C12Proofs
import RdsProofs.AuditFrames
/-!
# Property C12 — every reported clock time is the broadcast UTC instant shifted by the offset

`C12` = `chkC12` for every history and every next call: exactly one clock-time report for a 4A group with error-free
blocks B, C, D, hour < 24 and minute < 60 (when the callback is registered), none otherwise; the reported date is a valid
Gregorian date, the time of day is in range, the reported offset is 30·(signed half hours), and
`mjdOf date · 1440 + hour · 60 + minute = MJD · 1440 + UTC hour · 60 + UTC minute + offset` — i.e. the report is the
broadcast instant shifted by the offset, across midnight, month and year ends.
`civilFromDays_correct` is the calendar core for EVERY day number (not only the 2^17 + 2 that occur);
`ctInit_correct` / `ctInit_reject` are the statements about `rdsparser_ct_init`.
-/
-- THEOREM: RDS.C12
-- THEOREM: RDS.civilFromDays_correct
-- THEOREM: RDS.ctInit_correct
-- THEOREM: RDS.ctInit_reject
-- THEOREM: RDS.ctFields_spec
-- THEOREM: RDS.ctFields_spec_mod
-- THEOREM: RDS.afr_ctFieldsShift_eq
namespace RDS

/-- C12 for every history and every next call -/
theorem C12 (tb : Tabs) (h : EccOk tb) (ops : List Op) (op : Op) :
    chkC12 (monAfter tb.cfg ops) (recOf tb.cfg (run tb.cfg ops) op) = true :=
  chkC12_ok tb _ _ op (reach tb h ops).1

/-- anchors of the day count: MJD 0 = 1858-11-17, MJD 51544 = 2000-01-01, MJD 60275 = 2023-11-27 -/
example : mjdOf 1858 11 17 = 0 ∧ mjdOf 2000 1 1 = 51544 ∧ mjdOf 2023 11 27 = 60275 ∧ mjdOf 2100 3 1 = 88128 := by
  decide

end RDS
