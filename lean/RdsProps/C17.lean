import RdsProofs.Reach
import RdsProofs.WordedProofs
import RdsProofs.LinkProofs
import RdsProofs.AuditFrames
/-!
# Property C17 — settings are independent, clamped, and only changed by their setters

`C17` = `chkC17` for every history: the ten settings shown by the getters equal the abstract machine's `set`, which
is changed only by the three setters (`Settings.setCorr` clamps with `min v 2`), is reset only by `init`, survives `clear`,
and is untouched by parsing (`Mon.step`).
-/
-- THEOREM: RDS.C17
-- THEOREM: RDS.C17_worded
-- THEOREM: RDS.C17_clamp
-- THEOREM: RDS.C17_settings_frame
-- THEOREM: RDS.C17_setExt_only
-- THEOREM: RDS.C17_setCorr_only
-- THEOREM: RDS.C17_setProg_only
-- THEOREM: RDS.C17_other_keep_settings
-- THEOREM: RDS.C17_settings_frame_history
namespace RDS

/-- C17 for every history and every next call -/
theorem C17 (tb : Tabs) (h : EccOk tb) (ops : List Op) (op : Op) :
    chkC17 (monAfter tb.cfg (ops ++ [op])) (recOf tb.cfg (run tb.cfg ops) op) = true := by
  have hr := reach tb h ops
  rw [monAfter_snoc]
  exact chkC17_ok tb _ _ op hr.1 hr.2

/-- thresholds above 'large' read back as 'large'; writing one key changes no other key -/
theorem C17_clamp (s : Settings) (t : TextId) (k : BlockType) (v : Nat) :
    (s.setCorr t k v).corr t k = min v 2 ∧
    (∀ t' k', (t', k') ≠ (t, k) → (s.setCorr t k v).corr t' k' = s.corr t' k') ∧
    (s.setCorr t k v).ext = s.ext ∧ (∀ t', (s.setCorr t k v).prog t' = s.prog t') := by
  cases t <;> cases k <;> refine ⟨rfl, ?_, rfl, ?_⟩ <;>
    first
    | (intro t' k' hne; cases t' <;> cases k' <;> first | rfl | exact absurd rfl hne)
    | (intro t'; cases t' <;> rfl)

end RDS
