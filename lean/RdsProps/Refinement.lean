import RdsProofs.TransGroups
import RdsProofs.TransTables
import RdsProps.C01
import RdsProps.C03
import RdsProps.C02
import RdsProps.C04
import RdsProps.C06
import RdsProps.C07
import RdsProps.C08
import RdsProps.C09
import RdsProps.C10
import RdsProps.C11
import RdsProps.C12
import RdsProps.C13
import RdsProps.C16
import RdsProps.C17
/-!
# T0 — the C source, as translated by `tools/c2lean.py`, refines the model; the properties hold of the translated source

`RdsC/Translated.lean` is regenerated from `/repo/src/*.c` on every run. The theorems collected here state that every
translated function, read through the abstraction `abs` (what the getters return), IS the corresponding function of the
hand-written model, for arguments in the C API's ranges; `crun_refines` lifts this to every history of translated API
calls. The `*_source` corollaries restate the history theorems for the translated source: the observations they speak
about are those of the C state `crun u ops`, under the configuration `cfgC u` that the source text itself defines.
-/
-- THEOREM: RDS.C.crun_refines
-- THEOREM: RDS.C.cstep_refines
-- THEOREM: RDS.C.process_refines
-- THEOREM: RDS.C.ecc_lookup_refines
-- THEOREM: RDS.C.update_single_refines
-- THEOREM: RDS.C.parser_update_string_refines
-- THEOREM: RDS.C.string_clear_refines
-- THEOREM: RDS.C.string_get_available_refines
-- THEOREM: RDS.C.string_get_length_refines
-- THEOREM: RDS.C.set_field_refines
-- THEOREM: RDS.C.add_af_refines
-- THEOREM: RDS.C.tb_init_refines
-- THEOREM: RDS.C.tb_clear_refines
-- THEOREM: RDS.C.set_extended_check_refines
-- THEOREM: RDS.C.set_text_correction_refines
-- THEOREM: RDS.C.set_text_progressive_refines
-- THEOREM: RDS.C.set_user_data_refines
-- THEOREM: RDS.C.register_refines
-- THEOREM: RDS.C.TransBits.ct_init_eq
-- THEOREM: RDS.C.cfgC_g0_generated
-- THEOREM: RDS.C.cfgC_ecc_generated
-- THEOREM: RDS.C.sourceEccOk
-- THEOREM: RDS.C.C01_source
-- THEOREM: RDS.C.C04_source
-- THEOREM: RDS.C.C09_source
-- THEOREM: RDS.C.C16_source
-- THEOREM: RDS.C.C02_source
-- THEOREM: RDS.C.C06_source
-- THEOREM: RDS.C.C07_source
-- THEOREM: RDS.C.C08_source
-- THEOREM: RDS.C.C10_source
-- THEOREM: RDS.C.C11_source
-- THEOREM: RDS.C.C12_source
-- THEOREM: RDS.C.C13_source
-- THEOREM: RDS.C.C17_source
-- THEOREM: RDS.C.C03_source
namespace RDS.C
open RDS

/-- the tables of the source text, with the range of `rdsparser_country_t` as enumerator bound -/
def sourceTabs (u : Bool) : Tabs := ⟨cfgC u, 256⟩

/-- the ECC look-up of the source satisfies the range contract the logic proofs assume -/
theorem sourceEccOk (u : Bool) : EccOk (sourceTabs u) := by
  refine ⟨by show 0 < 256; omega, ?_⟩
  intro n e
  have h := tg_ecc_range ((n : Int) * 4096) (e : Int)
  show (c_rdsparser_ecc_lookup ((n : Int) * 4096) (e : Int)).toNat < 256
  omega

/-- C01 for the translated source: after every history of translated API calls and for every next call, the
observer's record taken from the C state satisfies `chkC01` -/
theorem C01_source (u : Bool) (ops : List Op) (hops : ∀ op ∈ ops, Op.Translatable op) (op : Op) :
    chkC01 (monAfter (cfgC u) (ops ++ [op])) (recOf (cfgC u) (abs (crun u ops)) op) = true := by
  rw [(crun_refines u ops hops).1]
  exact C01 (sourceTabs u) (sourceEccOk u) ops op

theorem C04_source (u : Bool) (ops : List Op) (hops : ∀ op ∈ ops, Op.Translatable op) (op : Op) :
    chkC04 (monAfter (cfgC u) ops) (recOf (cfgC u) (abs (crun u ops)) op) = true := by
  rw [(crun_refines u ops hops).1]
  exact C04 (sourceTabs u) (sourceEccOk u) ops op

theorem C09_source (u : Bool) (ops : List Op) (hops : ∀ op ∈ ops, Op.Translatable op) (op : Op) :
    chkC09 (monAfter (cfgC u) (ops ++ [op])) (recOf (cfgC u) (abs (crun u ops)) op) = true := by
  rw [(crun_refines u ops hops).1]
  exact C09 (sourceTabs u) (sourceEccOk u) ops op

theorem C16_source (u : Bool) (ops : List Op) (hops : ∀ op ∈ ops, Op.Translatable op) (op : Op) :
    chkC16 (cfgC u) (recOf (cfgC u) (abs (crun u ops)) op) = true := by
  rw [(crun_refines u ops hops).1]
  exact C16 (sourceTabs u) (sourceEccOk u) ops op

theorem C02_source (u : Bool) (ops : List Op) (hops : ∀ op ∈ ops, Op.Translatable op) (op : Op) :
    chkC02 (cfgC u) (monAfter (cfgC u) ops) (recOf (cfgC u) (abs (crun u ops)) op) = true := by
  rw [(crun_refines u ops hops).1]
  exact C02 (sourceTabs u) (sourceEccOk u) ops op

theorem C06_source (u : Bool) (ops : List Op) (hops : ∀ op ∈ ops, Op.Translatable op) (op : Op) :
    chkC06 (cfgC u) (monAfter (cfgC u) ops) (recOf (cfgC u) (abs (crun u ops)) op) = true := by
  rw [(crun_refines u ops hops).1]
  exact C06 (sourceTabs u) (sourceEccOk u) ops op

theorem C07_source (u : Bool) (ops : List Op) (hops : ∀ op ∈ ops, Op.Translatable op) (op : Op) :
    chkC07 (monAfter (cfgC u) ops) (recOf (cfgC u) (abs (crun u ops)) op) = true := by
  rw [(crun_refines u ops hops).1]
  exact C07 (sourceTabs u) (sourceEccOk u) ops op

theorem C08_source (u : Bool) (ops : List Op) (hops : ∀ op ∈ ops, Op.Translatable op) (op : Op) :
    chkC08 (monAfter (cfgC u) ops) (recOf (cfgC u) (abs (crun u ops)) op) = true := by
  rw [(crun_refines u ops hops).1]
  exact C08 (sourceTabs u) (sourceEccOk u) ops op

theorem C10_source (u : Bool) (ops : List Op) (hops : ∀ op ∈ ops, Op.Translatable op) (op : Op) :
    chkC10 (monAfter (cfgC u) (ops ++ [op])) (recOf (cfgC u) (abs (crun u ops)) op) = true := by
  rw [(crun_refines u ops hops).1]
  exact C10 (sourceTabs u) (sourceEccOk u) ops op

theorem C11_source (u : Bool) (ops : List Op) (hops : ∀ op ∈ ops, Op.Translatable op) (op : Op) :
    chkC11 (sourceTabs u) (monAfter (cfgC u) (ops ++ [op])) (recOf (cfgC u) (abs (crun u ops)) op) = true := by
  rw [(crun_refines u ops hops).1]
  exact C11 (sourceTabs u) (sourceEccOk u) ops op

theorem C12_source (u : Bool) (ops : List Op) (hops : ∀ op ∈ ops, Op.Translatable op) (op : Op) :
    chkC12 (monAfter (cfgC u) ops) (recOf (cfgC u) (abs (crun u ops)) op) = true := by
  rw [(crun_refines u ops hops).1]
  exact C12 (sourceTabs u) (sourceEccOk u) ops op

theorem C13_source (u : Bool) (ops : List Op) (hops : ∀ op ∈ ops, Op.Translatable op) (op : Op) :
    chkC13 (recOf (cfgC u) (abs (crun u ops)) op) = true := by
  rw [(crun_refines u ops hops).1]
  exact C13 (sourceTabs u) (sourceEccOk u) ops op

theorem C17_source (u : Bool) (ops : List Op) (hops : ∀ op ∈ ops, Op.Translatable op) (op : Op) :
    chkC17 (monAfter (cfgC u) (ops ++ [op])) (recOf (cfgC u) (abs (crun u ops)) op) = true := by
  rw [(crun_refines u ops hops).1]
  exact C17 (sourceTabs u) (sourceEccOk u) ops op

/-- C03 for the translated source: in any reachable C state, two groups that differ only in unused blocks
(`sameUsed` with the settings the getters show) lead to C states denoting the same model state, and to the same
callbacks -/
theorem C03_source (u : Bool) (r : C_librdsparser) (hI : CInv r) (g g' : Group) (hg : g.Bounded) (hg' : g'.Bounded)
    (hs : sameUsed (abs r).set g g' = true) (log : CLog) :
    abs (c_rdsparser_parser_process u r (dataOf g) (errorsOf g) log).1 =
      abs (c_rdsparser_parser_process u r (dataOf g') (errorsOf g') log).1 ∧
    absLog (c_rdsparser_parser_process u r (dataOf g) (errorsOf g) log).2 =
      absLog (c_rdsparser_parser_process u r (dataOf g') (errorsOf g') log).2 := by
  have h1 := process_refines u r hI g hg log
  have h2 := process_refines u r hI g' hg' log
  have h3 := C03_process (cfgC u) (abs r) g g' hs
  simp only [] at h1 h2
  constructor
  · rw [h1.1, h2.1, h3]
  · rw [h1.2.1, h2.2.1, h3]

end RDS.C
