import RdsProofs.TransGroups
import RdsProofs.TransTables
import RdsProps.C01
import RdsProps.C03
import RdsProps.C02
import RdsProps.C04
import RdsProps.C06
import RdsProps.C07
import RdsProps.C08
import RdsProps.C09
import RdsProps.C10
import RdsProps.C11
import RdsProps.C12
import RdsProps.C13
import RdsProps.C14
import RdsProps.C16
import RdsProps.C17
/-!
# T0 — the C source, as translated by `tools/c2lean.py`, refines the model; the properties hold of the translated source

`RdsC/Translated.lean` is regenerated from `/repo/src/*.c` on every run. The theorems collected here state that every
translated function, read through the abstraction `abs` (what the getters return), IS the corresponding function of the
hand-written model, for arguments in the C API's ranges; `crun_refines` lifts this to every history of translated API
calls — `rdsparser_parse_string` included: `utils_convert_refines` shows that `rdsparser_utils_convert`, which calls the
trusted libc models `libc_strlen / libc_isxdigit / libc_strtol16` of `RdsC/Prelude.lean`, is the strict `utilsConvert`. The `*_source` corollaries restate the history theorems for the translated source: the observations they speak
about are those of the C state `crun u ops`, under the configuration `cfgC u` that the source text itself defines.
-/
-- THEOREM: RDS.C.crun_refines
-- THEOREM: RDS.C.cstep_refines
-- THEOREM: RDS.C.process_refines
-- THEOREM: RDS.C.parse_string_refines
-- THEOREM: RDS.C.utils_convert_refines
-- THEOREM: RDS.C.ecc_lookup_refines
-- THEOREM: RDS.C.update_single_refines
-- THEOREM: RDS.C.parser_update_string_refines
-- THEOREM: RDS.C.string_clear_refines
-- THEOREM: RDS.C.string_get_available_refines
-- THEOREM: RDS.C.string_get_length_refines
-- THEOREM: RDS.C.set_field_refines
-- THEOREM: RDS.C.add_af_refines
-- THEOREM: RDS.C.tb_init_refines
-- THEOREM: RDS.C.tb_clear_refines
-- THEOREM: RDS.C.set_extended_check_refines
-- THEOREM: RDS.C.set_text_correction_refines
-- THEOREM: RDS.C.set_text_progressive_refines
-- THEOREM: RDS.C.set_user_data_refines
-- THEOREM: RDS.C.register_refines
-- THEOREM: RDS.C.TransBits.ct_init_eq
-- THEOREM: RDS.C.cfgC_g0_generated
-- THEOREM: RDS.C.cfgC_ecc_generated
-- THEOREM: RDS.C.sourceEccOk
-- THEOREM: RDS.C.tt_ecc_range
-- THEOREM: RDS.C.recOfC_eq
-- THEOREM: RDS.C.recOfC_run
-- THEOREM: RDS.C.C01_source
-- THEOREM: RDS.C.C04_source
-- THEOREM: RDS.C.C09_source
-- THEOREM: RDS.C.C16_source
-- THEOREM: RDS.C.C02_source
-- THEOREM: RDS.C.C06_source
-- THEOREM: RDS.C.C07_source
-- THEOREM: RDS.C.C08_source
-- THEOREM: RDS.C.C10_source
-- THEOREM: RDS.C.C11_source
-- THEOREM: RDS.C.C12_source
-- THEOREM: RDS.C.C13_source
-- THEOREM: RDS.C.C17_source
-- THEOREM: RDS.C.C14_source
-- THEOREM: RDS.C.C03_source
namespace RDS.C
open RDS

/-- the tables of the source text, with the number of country enumerators (read out of the compiled library) as bound -/
def sourceTabs (u : Bool) : Tabs := ⟨cfgC u, Generated.countryCount⟩

/-- the ECC look-up of the source satisfies the range contract the logic proofs assume: every value it can return is
a valid country enumerator (`tt_ecc_range`, decided over the four LUT initializers of the source text) -/
theorem sourceEccOk (u : Bool) : EccOk (sourceTabs u) := by
  refine ⟨by show 0 < Generated.countryCount; decide, ?_⟩
  intro n e
  have h := tt_ecc_range ((n : Int) * 4096) (e : Int)
  show (c_rdsparser_ecc_lookup ((n : Int) * 4096) (e : Int)).toNat < Generated.countryCount
  omega

/-! ## the observer's record of one call, taken entirely from the translated C -/

/-- the value the C call returns (`rdsparser_parse_string` is the only one that returns something) -/
def cret (u : Bool) (r : C_librdsparser) : Op → Bool
  | .parseString s => (c_rdsparser_parse_string u r (cstrArg s) []).1 != 0
  | _ => true

/-- what an observer of the translated C sees of call `op` made in C state `r`: the getters before, the getters after
`cstep`, the callbacks `cstep` logged, the C return value -/
def recOfC (u : Bool) (r : C_librdsparser) (op : Op) : StepRec :=
  ⟨op, Obs.ofState (abs r), Obs.ofState (abs (cstep u r op).1), (absLog (cstep u r op).2).map EvObs.ofEvent, cret u r op⟩

/-- … is the model's record of the same call in the abstracted state -/
theorem recOfC_eq (u : Bool) (r : C_librdsparser) (hI : CInv r) (op : Op) (hop : Op.Translatable op) :
    recOfC u r op = recOf (cfgC u) (abs r) op := by
  obtain ⟨h1, h2, _⟩ := cstep_refines u r hI op hop
  have hret : cret u r op = (step (cfgC u) (abs r) op).2.2 := by
    cases op with
    | parseString s =>
      have h := (parse_string_refines u r hI s hop []).2.2.2
      simp only [cret, h]
      cases (step (cfgC u) (abs r) (.parseString s)).2.2 <;> simp [b2i]
    | _ => rfl
  unfold recOfC recOf
  simp only [h1, h2, hret]

/-- the record of the call following any history of API calls, all of it executed by the translated C -/
theorem recOfC_run (u : Bool) (ops : List Op) (hops : ∀ op ∈ ops, Op.Translatable op) (op : Op) (hop : Op.Translatable op) :
    recOfC u (crun u ops) op = recOf (cfgC u) (run (cfgC u) ops) op := by
  rw [recOfC_eq u _ (crun_refines u ops hops).2 op hop, (crun_refines u ops hops).1]

/-- C01 for the translated source: after every history of translated API calls and for every next call, the
observer's record taken from the C state satisfies `chkC01` -/
theorem C01_source (u : Bool) (ops : List Op) (hops : ∀ op ∈ ops, Op.Translatable op) (op : Op) (hop : Op.Translatable op) :
    chkC01 (monAfter (cfgC u) (ops ++ [op])) (recOfC u (crun u ops) op) = true := by
  rw [recOfC_run u ops hops op hop]
  exact C01 (sourceTabs u) (sourceEccOk u) ops op

theorem C04_source (u : Bool) (ops : List Op) (hops : ∀ op ∈ ops, Op.Translatable op) (op : Op) (hop : Op.Translatable op) :
    chkC04 (monAfter (cfgC u) ops) (recOfC u (crun u ops) op) = true := by
  rw [recOfC_run u ops hops op hop]
  exact C04 (sourceTabs u) (sourceEccOk u) ops op

theorem C09_source (u : Bool) (ops : List Op) (hops : ∀ op ∈ ops, Op.Translatable op) (op : Op) (hop : Op.Translatable op) :
    chkC09 (monAfter (cfgC u) (ops ++ [op])) (recOfC u (crun u ops) op) = true := by
  rw [recOfC_run u ops hops op hop]
  exact C09 (sourceTabs u) (sourceEccOk u) ops op

theorem C16_source (u : Bool) (ops : List Op) (hops : ∀ op ∈ ops, Op.Translatable op) (op : Op) (hop : Op.Translatable op) :
    chkC16 (cfgC u) (recOfC u (crun u ops) op) = true := by
  rw [recOfC_run u ops hops op hop]
  exact C16 (sourceTabs u) (sourceEccOk u) ops op

theorem C02_source (u : Bool) (ops : List Op) (hops : ∀ op ∈ ops, Op.Translatable op) (op : Op) (hop : Op.Translatable op) :
    chkC02 (cfgC u) (monAfter (cfgC u) ops) (recOfC u (crun u ops) op) = true := by
  rw [recOfC_run u ops hops op hop]
  exact C02 (sourceTabs u) (sourceEccOk u) ops op

theorem C06_source (u : Bool) (ops : List Op) (hops : ∀ op ∈ ops, Op.Translatable op) (op : Op) (hop : Op.Translatable op) :
    chkC06 (cfgC u) (monAfter (cfgC u) ops) (recOfC u (crun u ops) op) = true := by
  rw [recOfC_run u ops hops op hop]
  exact C06 (sourceTabs u) (sourceEccOk u) ops op

theorem C07_source (u : Bool) (ops : List Op) (hops : ∀ op ∈ ops, Op.Translatable op) (op : Op) (hop : Op.Translatable op) :
    chkC07 (monAfter (cfgC u) ops) (recOfC u (crun u ops) op) = true := by
  rw [recOfC_run u ops hops op hop]
  exact C07 (sourceTabs u) (sourceEccOk u) ops op

theorem C08_source (u : Bool) (ops : List Op) (hops : ∀ op ∈ ops, Op.Translatable op) (op : Op) (hop : Op.Translatable op) :
    chkC08 (monAfter (cfgC u) ops) (recOfC u (crun u ops) op) = true := by
  rw [recOfC_run u ops hops op hop]
  exact C08 (sourceTabs u) (sourceEccOk u) ops op

theorem C10_source (u : Bool) (ops : List Op) (hops : ∀ op ∈ ops, Op.Translatable op) (op : Op) (hop : Op.Translatable op) :
    chkC10 (monAfter (cfgC u) (ops ++ [op])) (recOfC u (crun u ops) op) = true := by
  rw [recOfC_run u ops hops op hop]
  exact C10 (sourceTabs u) (sourceEccOk u) ops op

theorem C11_source (u : Bool) (ops : List Op) (hops : ∀ op ∈ ops, Op.Translatable op) (op : Op) (hop : Op.Translatable op) :
    chkC11 (sourceTabs u) (monAfter (cfgC u) (ops ++ [op])) (recOfC u (crun u ops) op) = true := by
  rw [recOfC_run u ops hops op hop]
  exact C11 (sourceTabs u) (sourceEccOk u) ops op

theorem C12_source (u : Bool) (ops : List Op) (hops : ∀ op ∈ ops, Op.Translatable op) (op : Op) (hop : Op.Translatable op) :
    chkC12 (monAfter (cfgC u) ops) (recOfC u (crun u ops) op) = true := by
  rw [recOfC_run u ops hops op hop]
  exact C12 (sourceTabs u) (sourceEccOk u) ops op

theorem C13_source (u : Bool) (ops : List Op) (hops : ∀ op ∈ ops, Op.Translatable op) (op : Op) (hop : Op.Translatable op) :
    chkC13 (recOfC u (crun u ops) op) = true := by
  rw [recOfC_run u ops hops op hop]
  exact C13 (sourceTabs u) (sourceEccOk u) ops op

theorem C17_source (u : Bool) (ops : List Op) (hops : ∀ op ∈ ops, Op.Translatable op) (op : Op) (hop : Op.Translatable op) :
    chkC17 (monAfter (cfgC u) (ops ++ [op])) (recOfC u (crun u ops) op) = true := by
  rw [recOfC_run u ops hops op hop]
  exact C17 (sourceTabs u) (sourceEccOk u) ops op

/-- C14 for the translated source: `rdsparser_parse_string` as written in `utils.c`/`rdsparser.c` (over the libc models
of `RdsC/Prelude.lean`) accepts exactly the 16/18-digit hexadecimal strings, acts as `rdsparser_parse` on the decoded
group, and otherwise returns false and changes nothing -/
theorem C14_source (u : Bool) (ops : List Op) (hops : ∀ op ∈ ops, Op.Translatable op) (op : Op) (hop : Op.Translatable op) :
    chkC14 (recOfC u (crun u ops) op) = true := by
  rw [recOfC_run u ops hops op hop]
  exact C14 (cfgC u) ops op

/-- C03 for the translated source: in any reachable C state, two groups that differ only in unused blocks
(`sameUsed` with the settings the getters show) lead to C states denoting the same model state, and to the same
callbacks -/
theorem C03_source (u : Bool) (r : C_librdsparser) (hI : CInv r) (g g' : Group) (hg : g.Bounded) (hg' : g'.Bounded)
    (hs : sameUsed (abs r).set g g' = true) (log : CLog) :
    abs (c_rdsparser_parser_process u r (dataOf g) (errorsOf g) log).1 =
      abs (c_rdsparser_parser_process u r (dataOf g') (errorsOf g') log).1 ∧
    absLog (c_rdsparser_parser_process u r (dataOf g) (errorsOf g) log).2 =
      absLog (c_rdsparser_parser_process u r (dataOf g') (errorsOf g') log).2 := by
  have h1 := process_refines u r hI g hg log
  have h2 := process_refines u r hI g' hg' log
  have h3 := C03_process (cfgC u) (abs r) g g' hs
  simp only [] at h1 h2
  constructor
  · rw [h1.1, h2.1, h3]
  · rw [h1.2.1, h2.2.1, h3]

end RDS.C
