import RdsProofs.TransGroups
import RdsProofs.TransTables
import RdsProps.C01
import RdsProps.C02
import RdsProps.C04
import RdsProps.C06
import RdsProps.C07
import RdsProps.C08
import RdsProps.C09
import RdsProps.C10
import RdsProps.C11
import RdsProps.C12
import RdsProps.C13
import RdsProps.C16
import RdsProps.C17
/-!
# T0 — the C source, as translated by `tools/c2lean.py`, refines the model; the properties hold of the translated source

`RdsC/Translated.lean` is regenerated from `/repo/src/*.c` on every run. The theorems collected here state that every
translated function, read through the abstraction `abs` (what the getters return), IS the corresponding function of the
hand-written model, for arguments in the C API's ranges; `crun_refines` lifts this to every history of translated API
calls. The `*_source` corollaries restate the history theorems for the translated source: the observations they speak
about are those of the C state `crun u ops`, under the configuration `cfgC u` that the source text itself defines.
-/
-- THEOREM: RDS.C.crun_refines
-- THEOREM: RDS.C.cstep_refines
-- THEOREM: RDS.C.process_refines
-- THEOREM: RDS.C.ecc_lookup_refines
-- THEOREM: RDS.C.update_single_refines
-- THEOREM: RDS.C.parser_update_string_refines
-- THEOREM: RDS.C.string_clear_refines
-- THEOREM: RDS.C.string_get_available_refines
-- THEOREM: RDS.C.string_get_length_refines
-- THEOREM: RDS.C.set_field_refines
-- THEOREM: RDS.C.add_af_refines
-- THEOREM: RDS.C.tb_init_refines
-- THEOREM: RDS.C.tb_clear_refines
-- THEOREM: RDS.C.set_extended_check_refines
-- THEOREM: RDS.C.set_text_correction_refines
-- THEOREM: RDS.C.set_text_progressive_refines
-- THEOREM: RDS.C.set_user_data_refines
-- THEOREM: RDS.C.register_refines
-- THEOREM: RDS.C.TransBits.ct_init_eq
-- THEOREM: RDS.C.cfgC_g0_generated
-- THEOREM: RDS.C.cfgC_ecc_generated
-- THEOREM: RDS.C.sourceEccOk
-- THEOREM: RDS.C.C01_source
-- THEOREM: RDS.C.C04_source
-- THEOREM: RDS.C.C09_source
-- THEOREM: RDS.C.C16_source
namespace RDS.C
open RDS

/-- the tables of the source text, with the range of `rdsparser_country_t` as enumerator bound -/
def sourceTabs (u : Bool) : Tabs := ⟨cfgC u, 256⟩

/-- the ECC look-up of the source satisfies the range contract the logic proofs assume -/
theorem sourceEccOk (u : Bool) : EccOk (sourceTabs u) := by
  refine ⟨by show 0 < 256; omega, ?_⟩
  intro n e
  have h := tg_ecc_range ((n : Int) * 4096) (e : Int)
  show (c_rdsparser_ecc_lookup ((n : Int) * 4096) (e : Int)).toNat < 256
  omega

/-- C01 for the translated source: after every history of translated API calls and for every next call, the
observer's record taken from the C state satisfies `chkC01` -/
theorem C01_source (u : Bool) (ops : List Op) (hops : ∀ op ∈ ops, Op.Translatable op) (op : Op) :
    chkC01 (monAfter (cfgC u) (ops ++ [op])) (recOf (cfgC u) (abs (crun u ops)) op) = true := by
  rw [(crun_refines u ops hops).1]
  exact C01 (sourceTabs u) (sourceEccOk u) ops op

theorem C04_source (u : Bool) (ops : List Op) (hops : ∀ op ∈ ops, Op.Translatable op) (op : Op) :
    chkC04 (monAfter (cfgC u) ops) (recOf (cfgC u) (abs (crun u ops)) op) = true := by
  rw [(crun_refines u ops hops).1]
  exact C04 (sourceTabs u) (sourceEccOk u) ops op

theorem C09_source (u : Bool) (ops : List Op) (hops : ∀ op ∈ ops, Op.Translatable op) (op : Op) :
    chkC09 (monAfter (cfgC u) (ops ++ [op])) (recOf (cfgC u) (abs (crun u ops)) op) = true := by
  rw [(crun_refines u ops hops).1]
  exact C09 (sourceTabs u) (sourceEccOk u) ops op

theorem C16_source (u : Bool) (ops : List Op) (hops : ∀ op ∈ ops, Op.Translatable op) (op : Op) :
    chkC16 (cfgC u) (recOf (cfgC u) (abs (crun u ops)) op) = true := by
  rw [(crun_refines u ops hops).1]
  exact C16 (sourceTabs u) (sourceEccOk u) ops op

end RDS.C
