import RdsProofs.Reach
import RdsProofs.C04Proofs
import RdsProofs.C08Cb
import RdsProofs.NormalShown
import RdsProofs.WordedProofs
import RdsProofs.LinkProofs
import RdsProofs.AuditC09
/-!
# Property C10 — AF list is exactly the set of valid FM codes received in 0A

`C10` = `chkC10` for every history: the AF bitmap is exactly `{v | count v ≥ 1}` (≥ 2 under the extended check),
where `Mon.afRecv` counts a code only if it is valid (1..204) and only from block C of a 0A group with error-free blocks B
and C whose first code is not 250 (`Mon.group`). That every addition fires the AF callback exactly once with
87500 + 100·code kHz is part of C04 (`chkC04`'s AF clause).
-/
-- THEOREM: RDS.C10
-- THEOREM: RDS.C10_normal_shown
-- THEOREM: RDS.C10_callback
-- THEOREM: RDS.C10_worded_normal
-- THEOREM: RDS.C10_worded_extended
-- THEOREM: RDS.C10_monotone
-- THEOREM: RDS.C10_only_valid_codes
-- THEOREM: RDS.C10_worded_extended'
namespace RDS

/-- "received is shown", for every history: with the extended check off at the moment of the call — whatever the mode was earlier — both codes of an accepted 0A pair are on the list after the call (or are not FM codes) -/
theorem C10_normal_shown (tb : Tabs) (h : EccOk tb) (ops : List Op) (op : Op) :
    chkNormalAf (recOf tb.cfg (run tb.cfg ops) op) = true :=
  chkNormalAf_ok tb _ op (reach tb h ops).2

/-- C10's callback clause for every history: the AF reports of a call are exactly the codes the call added to the list, each once,
as 87 500 + 100·code kHz (while an AF callback is registered) -/
theorem C10_callback (tb : Tabs) (h : EccOk tb) (ops : List Op) (op : Op) :
    chkC10cb (monAfter tb.cfg ops) (recOf tb.cfg (run tb.cfg ops) op) = true :=
  chkC10cb_of_chkC04 _ _ (chkC04_ok tb _ _ op (reach tb h ops).1 (reach tb h ops).2)

/-- C10 for every history and every next call -/
theorem C10 (tb : Tabs) (h : EccOk tb) (ops : List Op) (op : Op) :
    chkC10 (monAfter tb.cfg (ops ++ [op])) (recOf tb.cfg (run tb.cfg ops) op) = true := by
  have hr := reach tb h ops
  rw [monAfter_snoc]
  exact chkC10_ok tb _ _ op hr.1 hr.2

/-- codes 0 and 205..255 (filler, count, LF/MF markers) never count -/
theorem C10_only_valid_codes (m : Mon) (v : Nat) (h : v = 0 ∨ 205 ≤ v) : m.afRecv v = m := by
  have : afValid v = false := by
    simp only [afValid, Bool.and_eq_false_iff, decide_eq_false_iff_not]
    omega
  simp [Mon.afRecv, this]

end RDS
