import RdsProofs.Reach
import RdsProofs.C15Proofs
import RdsProofs.LinkProofs
import RdsProofs.Reentrant
import RdsProofs.ReentrantObs
/-!
# Property C15 — callbacks, user data and getters are pure observers

`C15_state`/`C15_observer`/`C15_run`: the parser state with the observer table erased evolves identically whatever is
registered and whatever observer operations (register, set_user_data, getters) are interleaved. `C15_events`: the callbacks
invoked are exactly those of the all-listening run filtered by the registration table, each seeing the same getter-visible
state. `C15_ud`: every invoked callback is registered and receives the user data most recently set. `C15` = `chkC15` for
every history (as evaluated on the implementation's trace, where the harness also checks the handle passed).
-/
-- THEOREM: RDS.C15
-- THEOREM: RDS.C15_state
-- THEOREM: RDS.C15_observer
-- THEOREM: RDS.C15_ret
-- THEOREM: RDS.C15_events
-- THEOREM: RDS.C15_ud
-- THEOREM: RDS.C15_run
-- `C15_nested_noop`: the nested-call model (`RdsModel/Reentrant.lean`, callbacks as state transformers threaded through the
-- decoder in C's invocation order) collapses to the model the theorems above are about when the callbacks do not call the API.
-- THEOREM: RDS.C15_nested_noop
-- THEOREM: RDS.processH_noop
-- THEOREM: RDS.mstepH_noop
-- `C15_nested`: nested-call form of C15 — a callback that from inside the call changes nothing but the registration table and
-- the user data (handler `h` with `erase (h e s).1 = erase s`) does not influence what is decoded; `handlerOfMode_observerOnly`:
-- the harness modes `ri 1000..4999` are such handlers (non-vacuity).
-- THEOREM: RDS.C15_nested
-- THEOREM: RDS.processH_erase
-- THEOREM: RDS.handlerOfMode_observerOnly
namespace RDS

/-- C15's event clause for every history and every next call -/
theorem C15 (tb : Tabs) (h : EccOk tb) (ops : List Op) (op : Op) :
    chkC15 (monAfter tb.cfg ops) (recOf tb.cfg (run tb.cfg ops) op) = true :=
  chkC15_ok tb _ _ op (reach tb h ops).1 (reach tb h ops).2

/-- C15 under nested calls: whatever the callbacks register, remove or set as user data from inside the call, the state after
the call is, up to the observer table, the one the plain model reaches -/
theorem C15_nested (cfg : Cfg) (h : Handler) (ho : h.ObserverOnly) (s : State) (op : Op) :
    erase (stepH cfg h s op).1 = erase (step cfg s op).1 :=
  stepH_erase cfg h ho s op

/-- callbacks that only observe: the nested-call semantics of a call is the plain one -/
theorem C15_nested_noop (cfg : Cfg) (s : State) (op : Op) : stepH cfg Handler.noop s op = step cfg s op :=
  stepH_noop cfg s op

end RDS
