import RdsProofs.TableC18
/-!
# Property C18 — PTY and country lookups are total, bounded and name the right entity

All theorems are kernel-checked facts about `Generated.*`, the complete input/output graph of the five lookup functions
read out of the library compiled from the current tree (256 PTY arguments × {RDS, RBDS} × 3 tables; 256 country arguments ×
2 tables; never NULL, NUL-terminated under ASan), against the hand-written oracle `Reference.*`:
`C18_pty` (entry for 0..31, "Unknown" otherwise), `C18_pty_width` (short ≤ 8, long ≤ 16 characters), `C18_country_name`,
`C18_country_iso` ("??" out of range; in range the (name, code) pair is a row of the ISO 3166-1 reference),
`C18_iso_two_letters`, `C18_iso_distinct` (two arguments share a code other than "--" only if they name the same country).
-/
-- THEOREM: RDS.C18_pty
-- THEOREM: RDS.C18_pty_width
-- THEOREM: RDS.C18_country_name
-- THEOREM: RDS.C18_country_iso
-- THEOREM: RDS.C18_iso_two_letters
-- THEOREM: RDS.C18_iso_distinct
-- THEOREM: RDS.tbl_reference_iso_distinct
