import RdsProofs.Reach
import RdsProofs.CellsProofs
import RdsProofs.RefineProofs
/-!
# Property C06 — text acceptance thresholds and weighted per-character error level

`C06` = `chkC06` for every history (each addressed cell is, progressive correction aside, the closed form `cellSpec`: accepted iff eB ≤ info ∧
eX ≤ data ∧ progressive rule ∧ end-of-text/≥0x7F only error-free ∧ not identical data with equal-or-worse level; level 0
when both error-free, else 2·eB + 3·eX − 1). `updateSingle_cellSpec` is the same closed form for one byte.
`C06_weight`: levels stay ≤ 9 and data errors outweigh info errors.
-/
-- THEOREM: RDS.C06
-- THEOREM: RDS.updateSingle_cellSpec
-- THEOREM: RDS.C06_weight
-- THEOREM: RDS.C06_special_error_free
namespace RDS

/-- C06 for every history and every next call -/
theorem C06 (tb : Tabs) (h : EccOk tb) (ops : List Op) (op : Op) :
    chkC06 tb.cfg (monAfter tb.cfg ops) (recOf tb.cfg (run tb.cfg ops) op) = true := by
  have hr := reach tb h ops
  exact chkC06_ok tb _ _ op hr.1 hr.2

/-- the weighted level: at most 9 for accepted error levels (≤ 2), and swapping a larger data error with a smaller
info error always gives a larger level: data errors outweigh info errors -/
theorem C06_weight (x y : Nat) (hx : x ≤ 2) (hy : y ≤ 2) :
    calcError x y ≤ 9 ∧ (x < y → calcError y x < calcError x y) := by
  unfold calcError
  constructor
  · split <;> omega
  · intro hxy; split <;> split <;> omega

/-- characters ≥ 0x7F and the end-of-text marker are taken only from error-free blocks -/
theorem C06_special_error_free (cfg : Cfg) (info data : Nat) (prog : Bool) (old : Cell) (b eb ed : Nat)
    (hb : b = 0x0D ∨ 0x7F ≤ b) (he : ¬ (eb = 0 ∧ ed = 0)) :
    cellSpec cfg info data prog old b eb ed = old := by
  unfold cellSpec
  rcases hb with hb | hb
  · subst hb; simp [he]
  · have : ¬ b < 0x7F := by omega
    simp [he, this]

end RDS
