import RdsProofs.Reach
import RdsProofs.NormalShown
import RdsProofs.LinkProofs
import RdsProofs.TableC11
import RdsProofs.AuditFrames
/-!
# Property C11 — ECC and country follow group 1A variant 0 and the IEC 62106-4 table

`C11` = `chkC11` for every history: ECC and country shown by the getters equal the abstract fields, which receive a value
only from a 1A group with error-free blocks B and C and variant 0 (`Mon.group`): ECC = low byte of block C, country = table
entry for (nibble of the PI visible at that moment, ECC), 0 when PI is unknown or its nibble is 0; the country is always a
valid enumerator. `C11_generated` instantiates it with the tables read out of the compiled library (no hypothesis left).
`C11_table`: that table equals the IEC 62106-4 reference on all 17 × 256 cells; `C11_unknown`: 'unknown' outside
A0–A6/D0–D4/E0–E5/F0–F4 and for PI unknown / nibble 0; `C11_range`: every cell is a valid enumerator.
-/
-- THEOREM: RDS.C11
-- THEOREM: RDS.C11_normal_shown
-- THEOREM: RDS.C11_generated
-- THEOREM: RDS.C11_table
-- THEOREM: RDS.C11_cells
-- THEOREM: RDS.C11_range
-- THEOREM: RDS.C11_unknown
-- THEOREM: RDS.eccOk
-- THEOREM: RDS.C11_frame
-- THEOREM: RDS.C11_frame_step
-- THEOREM: RDS.C11_frame_history
namespace RDS

/-- "received is shown", for every history: with the extended check off at the moment of the call — whatever the mode was earlier — the ECC of an accepted 1A variant-0 group is what the getter shows after the call -/
theorem C11_normal_shown (tb : Tabs) (h : EccOk tb) (ops : List Op) (op : Op) :
    chkNormalEcc (recOf tb.cfg (run tb.cfg ops) op) = true :=
  chkNormalEcc_ok tb _ op (reach tb h ops).2

/-- C11 for every history and every next call -/
theorem C11 (tb : Tabs) (h : EccOk tb) (ops : List Op) (op : Op) :
    chkC11 tb (monAfter tb.cfg (ops ++ [op])) (recOf tb.cfg (run tb.cfg ops) op) = true := by
  have hr := reach tb h ops
  rw [monAfter_snoc]
  exact chkC11_ok tb _ _ op hr.1 hr.2 (wf_step tb h _ op hr.2)

/-- … with the tables of the compiled library, both charset configurations -/
theorem C11_generated (u : Bool) (ops : List Op) (op : Op) :
    chkC11 ⟨Generated.cfg u, Generated.countryCount⟩
      (monAfter (Generated.cfg u) (ops ++ [op])) (recOf (Generated.cfg u) (run (Generated.cfg u) ops) op) = true :=
  C11 ⟨Generated.cfg u, Generated.countryCount⟩ (eccOk u) ops op

end RDS
