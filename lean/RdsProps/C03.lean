import RdsProofs.Reach
import RdsProofs.C03Proofs
import RdsProofs.AuditC03C20
/-!
# Property C03 — blocks flagged above the accepted error level never influence anything

`C03_process`: for every state, every group and every replacement of the data bits of unused blocks
(`sameUsed`, RdsSpec/Statements.lean — the property's list of accepted levels) the successor state AND the event list
are identical; since the successor states are equal, so is all later behaviour (`C03_trace` lifts it to op lists).
`C03_process_typed`, `C03_process'`, `C03_trace'`, `C03_typed` (RdsProofs/AuditC03C20.lean): the type-aware reading — an errored
block B is used only by the text handler of the group type it carries, so two groups whose block B is unused in that sense
agree as soon as block A agrees where used (B, C, D and their error codes may all differ); `ac3_sameUsed_onesided_false` shows the
relation must be two-sided. `C03_uncorrectable`: with thresholds clamped to 'large' a block with any code ≥ 3 is never used, block B included.
-/
-- THEOREM: RDS.C03_process
-- THEOREM: RDS.C03_trace
-- THEOREM: RDS.C03_uncorrectable
-- THEOREM: RDS.C03
-- THEOREM: RDS.C03_process_typed
-- THEOREM: RDS.C03_process'
-- THEOREM: RDS.C03_trace'
-- THEOREM: RDS.C03_typed
-- THEOREM: RDS.ac3_process_unusedB'
-- THEOREM: RDS.ac3_sameUsed_onesided_false
namespace RDS

/-- C03 on reachable states: thresholds are clamped there (`WF.setOk`), so "uncorrectable is always ignored" holds
for every history -/
theorem C03 (tb : Tabs) (h : EccOk tb) (ops : List Op) (g g' : Group)
    (hs : sameUsed (run tb.cfg ops).set g g' = true) :
    process tb.cfg (run tb.cfg ops) g = process tb.cfg (run tb.cfg ops) g' ∧
    ((3 ≤ g.ea → usedA g = false) ∧ (3 ≤ g.eb → usedB (run tb.cfg ops).set g = false) ∧
     (3 ≤ g.ec → usedC (run tb.cfg ops).set g = false) ∧ (3 ≤ g.ed → usedD (run tb.cfg ops).set g = false)) :=
  ⟨C03_process tb.cfg _ g g' hs, C03_uncorrectable _ (reach tb h ops).2.setOk g⟩

end RDS
