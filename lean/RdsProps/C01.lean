import RdsProofs.Reach
import RdsProofs.NormalShown
import RdsProofs.WordedProofs
import RdsProofs.AuditFrames
/-!
# Property C01 — basic tuning fields always equal the last error-free reception

`chkC01` (RdsSpec/Monitors.lean): whenever the parser has been in normal mode for every reception since the
last reset, PI/PTY/TP/TA/MS shown by the getters equal the abstract fields of the reference machine `Mon`, whose
`vis` is the last error-free reception (`AFld.recv false f v = ⟨some v, v⟩`) and `-1` before the first one.
Quantification: every table configuration `tb`, every history `ops` from initialisation, every next call `op`
(all 16 group types, any block values, any error codes — `Group` fields are unbounded naturals).
-/
-- THEOREM: RDS.C01
-- THEOREM: RDS.C01_normal_shown
-- THEOREM: RDS.C01_worded
-- THEOREM: RDS.C01_never_unknown
-- THEOREM: RDS.C01_received_nonneg
-- THEOREM: RDS.C01_normal_mode_shows_last
-- THEOREM: RDS.C01_never_unknown_step
-- THEOREM: RDS.C01_never_unknown_getter
-- THEOREM: RDS.C01_never_unknown_getter_suffix
namespace RDS

/-- "received is shown", for every history: with the extended check off at the moment of the call — whatever the mode was earlier — PI, PTY, TP (and TA, MS for group 0) delivered through error-free blocks are what the getters show after the call -/
theorem C01_normal_shown (tb : Tabs) (h : EccOk tb) (ops : List Op) (op : Op) :
    chkNormalScalars (recOf tb.cfg (run tb.cfg ops) op) = true :=
  chkNormalScalars_ok tb _ op (reach tb h ops).2

/-- C01 for every history and every next call -/
theorem C01 (tb : Tabs) (h : EccOk tb) (ops : List Op) (op : Op) :
    chkC01 (monAfter tb.cfg (ops ++ [op])) (recOf tb.cfg (run tb.cfg ops) op) = true := by
  have hr := reach tb h ops
  rw [monAfter_snoc]
  exact chkC01_ok tb _ _ op hr.1 hr.2

/-- the abstract field in normal mode is literally "the last reception" -/
theorem C01_normal_mode_shows_last (f : AFld) (v : Int) :
    (f.recv false v).vis = v ∧ (f.recv false v).last = some v := by
  simp [AFld.recv]

end RDS
