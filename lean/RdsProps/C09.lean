import RdsProofs.Reach
import RdsProofs.ExtraProofs
import RdsProofs.WordedProofs
import RdsProofs.LinkProofs
import RdsProofs.AuditC09
/-!
# Property C09 — extended check: nothing seen only once ever becomes visible

`C09` = `chkC09` for every history: while the extended check has been on for every reception since the last reset
(`clean ∧ ext`; in particular when it is set while the parser is in its reset state), the seven buffered scalars equal the
abstract fields and the AF list is exactly the set of codes received at least twice. `C09_two_consecutive` is the rule of
the abstract field (`AFld.recv true`): the visible value changes to v exactly when the previous reception also carried v.
-/
-- THEOREM: RDS.C09
-- THEOREM: RDS.C09_text_indep_step
-- THEOREM: RDS.C09_text_indep
-- THEOREM: RDS.C09_worded
-- THEOREM: RDS.extFold_shown
-- THEOREM: RDS.extFold_no_double
-- THEOREM: RDS.extFold_double_at_end
-- THEOREM: RDS.C09_two_consecutive
-- THEOREM: RDS.C09_single_never_visible
-- THEOREM: RDS.C09_worded'
-- THEOREM: RDS.C09_worded_country
-- THEOREM: RDS.C09_worded_country'
-- THEOREM: RDS.C09_worded'_suffix
-- THEOREM: RDS.C09_text_indep_trace
-- THEOREM: RDS.ac09_extendedMode_toPrime
namespace RDS

/-- C09 for every history and every next call -/
theorem C09 (tb : Tabs) (h : EccOk tb) (ops : List Op) (op : Op) :
    chkC09 (monAfter tb.cfg (ops ++ [op])) (recOf tb.cfg (run tb.cfg ops) op) = true := by
  have hr := reach tb h ops
  rw [monAfter_snoc]
  exact chkC09_ok tb _ _ op hr.1 hr.2

/-- extended check: a reception of `v` becomes visible iff the immediately preceding reception of that field also
carried `v`; otherwise the visible value stays what it was -/
theorem C09_two_consecutive (f : AFld) (v : Int) :
    (f.recv true v).last = some v ∧
    (f.last = some v → (f.recv true v).vis = v) ∧ (f.last ≠ some v → (f.recv true v).vis = f.vis) := by
  refine ⟨by simp [AFld.recv], ?_, ?_⟩
  · intro h; simp [AFld.recv, h]
  · intro h; simp [AFld.recv, h]

/-- a value received a single time between two receptions of other values never becomes visible -/
theorem C09_single_never_visible (f : AFld) (v w : Int) (h1 : f.last ≠ some v) (h2 : w ≠ v) :
    ((f.recv true v).recv true w).vis = f.vis ∨ ((f.recv true v).recv true w).vis = w := by
  simp only [AFld.recv, if_true]
  have : (some v : Option Int) ≠ some w := by
    intro h; exact h2 (Option.some.inj h).symm
  simp [h1, this]

end RDS
