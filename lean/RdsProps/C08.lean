import RdsProofs.Reach
import RdsProofs.CellsProofs
import RdsProofs.RefineProofs
import RdsProofs.LinkProofs
import RdsProofs.C04Proofs
import RdsProofs.C08Cb
/-!
# Property C08 — RadioText A/B protocol: switch empties the new buffer, noisy flags are ignored

`C08` = `chkC08` for every history (other buffer untouched; selected buffer emptied first exactly on a switch; noisy groups change no RT cell), a consequence of the closed form `expectedText`, which encodes the protocol: `switchDiscard` (error-free block B,
flag differs from the last one seen, last one known, selected buffer holds something) empties the selected buffer first;
`rtNoisy` (block B has errors, flag differs from the last one seen) leaves every RT cell as it was; the buffer of the other
flag is never addressed. The monitor's `lastFlag` is the flag of the most recent type-2 group with error-free block B since
reset (`Mon.group`), and equals the model's `lastRt` in every reachable state (`Link.lastFlag`).
`C08_other_buffer`, `C08_noisy`, `C08_first_flag` are the property's sentences on `expectedText`.
-/
-- THEOREM: RDS.C08
-- THEOREM: RDS.C08_callback
-- THEOREM: RDS.C08_first_processed
-- THEOREM: RDS.C08_other_buffer
-- THEOREM: RDS.C08_noisy
-- THEOREM: RDS.C08_first_flag
namespace RDS

/-- C08 for every history and every next call -/
theorem C08 (tb : Tabs) (h : EccOk tb) (ops : List Op) (op : Op) :
    chkC08 (monAfter tb.cfg ops) (recOf tb.cfg (run tb.cfg ops) op) = true := by
  have hr := reach tb h ops
  exact chkC08_ok tb _ _ op hr.1 hr.2

/-- C08's callback clause for every history: a switch that empties the new flag's buffer is reported by exactly one RT
callback carrying that flag (while an RT callback is registered) -/
theorem C08_callback (tb : Tabs) (h : EccOk tb) (ops : List Op) (op : Op) :
    chkC08cb (monAfter tb.cfg ops) (recOf tb.cfg (run tb.cfg ops) op) = true :=
  chkC08cb_of_chkC04 _ _ (chkC04_ok tb _ _ op (reach tb h ops).1 (reach tb h ops).2)

/-- C08's first-flag clause for every history: while no flag has been seen since the last reset, a type-2 group — also one
whose block B has errors — is neither a switch nor ignored as a bit-flip: both RT buffers are exactly the expected ones -/
theorem C08_first_processed (tb : Tabs) (h : EccOk tb) (ops : List Op) (op : Op) :
    chkC08first tb.cfg (monAfter tb.cfg ops) (recOf tb.cfg (run tb.cfg ops) op) = true :=
  chkC08first_of_chkCells _ _ _ (chkCells_ok tb _ _ op (reach tb h ops).1 (reach tb h ops).2)

/-- every cell a type-2 group addresses lies in the buffer selected by its flag -/
theorem addressed_type2_text (g : Group) (h2 : g.type = 2) : ∀ a ∈ addressed g, a.1 = 1 + g.b / 16 % 2 := by
  intro a ha
  unfold addressed at ha
  simp only [h2] at ha
  by_cases hv : g.versionB = true
  · simp [hv] at ha
    rcases ha with h | h <;> subst h <;> rfl
  · simp [hv] at ha
    rcases ha with h | h | h | h <;> subst h <;> rfl

/-- a type-2 group never modifies the buffer of the other flag -/
theorem C08_other_buffer (cfg : Cfg) (m : Mon) (before : Obs) (g : Group) (h2 : g.type = 2) :
    expectedText cfg m before g (1 + (1 - g.b / 16 % 2)) =
      (List.range (before.text (1 + (1 - g.b / 16 % 2))).cells.length).map
        (fun i => (before.text (1 + (1 - g.b / 16 % 2))).cells.getD i blank) := by
  have hne : ¬ (1 + (1 - g.b / 16 % 2) = 1 + g.b / 16 % 2) := by omega
  have hfil : (addressed g).filter (fun a => decide (a.1 = 1 + (1 - g.b / 16 % 2))) = [] := by
    apply List.filter_eq_nil_iff.mpr
    intro a ha
    have := addressed_type2_text g h2 a ha
    simp only [decide_eq_true_eq]
    omega
  unfold expectedText
  simp only [hne, decide_false, Bool.and_false, Bool.false_eq_true, if_false, hfil]
  apply List.map_congr_left
  intro i _
  have hf : (List.find? (fun a : Nat × Nat × Nat × Nat => decide (a.2.1 = i)) (if rtNoisy m g = true then [] else [])) = none := by
    split <;> rfl
  rw [hf]

/-- a type-2 group whose block B has errors and whose flag differs from the last seen one changes no RT cell -/
theorem C08_noisy (cfg : Cfg) (m : Mon) (before : Obs) (g : Group) (hn : rtNoisy m g = true) (t : Nat) :
    expectedText cfg m before g t =
      (List.range (before.text t).cells.length).map (fun i => (before.text t).cells.getD i blank) := by
  have heb : g.eb ≠ 0 := by
    simp only [rtNoisy, Bool.and_eq_true, bne_iff_ne, ne_eq, decide_eq_true_eq] at hn
    exact hn.1.1.2
  have hsd : switchDiscard m before g = false := by
    simp [switchDiscard, heb]
  unfold expectedText
  simp [hn, hsd]

/-- the very first flag after a reset empties nothing -/
theorem C08_first_flag (m : Mon) (before : Obs) (g : Group) (h : m.lastFlag = -1) :
    switchDiscard m before g = false := by
  simp [switchDiscard, h]

end RDS
