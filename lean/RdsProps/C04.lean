import RdsProofs.Reach
import RdsProofs.C04Proofs
/-!
# Property C04 — a callback fires exactly when its field changes, and sees the new value

`C04` = `chkC04` for every history and every next call: during a delivered group, for every registered callback the number
of invocations is 1 if that field's getter result differs after the call from before it and 0 otherwise (RT: additionally 1
when an A/B switch discards the previous text; never for the other flag; AF: the multiset of reported frequencies is exactly
87500 + 100·code for the codes newly listed, at most two), and every event shows its own field at its final value.
`C04_redeliver`: re-delivering the same group immediately (normal mode) notifies nothing but clock time and changes no getter.
Holds for every setting of extended check / thresholds / progressive mode (they are part of the arbitrary history).
-/
-- THEOREM: RDS.C04
-- THEOREM: RDS.C04_redeliver
namespace RDS

/-- C04 for every history and every next call -/
theorem C04 (tb : Tabs) (h : EccOk tb) (ops : List Op) (op : Op) :
    chkC04 (monAfter tb.cfg ops) (recOf tb.cfg (run tb.cfg ops) op) = true :=
  chkC04_ok tb _ _ op (reach tb h ops).1 (reach tb h ops).2

/-- C04's last sentence for every history `ops`, every call `op0` and the call `op` that immediately follows it -/
theorem C04_redeliver (tb : Tabs) (h : EccOk tb) (ops : List Op) (op0 op : Op) :
    chkC04redeliver (monAfter tb.cfg (ops ++ [op0])) (recOf tb.cfg (run tb.cfg (ops ++ [op0])) op) = true := by
  rw [monAfter_snoc, run_snoc]
  exact chkC04redeliver_ok tb _ _ op0 op (reach tb h ops).1 (reach tb h ops).2

end RDS
