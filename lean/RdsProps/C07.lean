import RdsProofs.C08Cb
import RdsProofs.RefineProofs
import RdsProofs.Reach
import RdsProofs.ExtraProofs
import RdsProofs.CellsProofs
import RdsProofs.AuditC07
/-!
# Property C07 — progressive correction only ever improves a character cell

`C07` = `chkC07` for every history: with progressive correction on for a text, after any call other than
init/clear no cell level of that text increases, except in the RT buffer that an A/B switch empties.
`C07_cell`: an accepted reception in progressive mode has a level not worse than the cell's current level;
`C07_error_free_stable`: a cell at level 0 is only changed by an error-free reception.
-/
-- THEOREM: RDS.C07
-- THEOREM: RDS.C07_error_free_taken
-- THEOREM: RDS.C07_history_ps
-- THEOREM: RDS.C07_history_ptyn
-- THEOREM: RDS.C07_level0_sticky_ps
-- THEOREM: RDS.C07_cell
-- THEOREM: RDS.C07_error_free_stable
-- THEOREM: RDS.C07_history_rt
-- THEOREM: RDS.C07_history_rt_keeps
-- THEOREM: RDS.C07_history_text
-- THEOREM: RDS.C07_char_replaced_only_by_not_worse
-- THEOREM: RDS.C07_error_free_sticky
-- THEOREM: RDS.C07_error_free_sticky_history
-- THEOREM: RDS.C07_converges
-- THEOREM: RDS.C07_converges_string
namespace RDS

/-- C07's convergence clause per call, for every history: in a text with progressive correction on, an error-free reception
addressed to a cell is always taken (marker for 0x0D, old content for a control code, otherwise the table image at level 0) -/
theorem C07_error_free_taken (tb : Tabs) (h : EccOk tb) (ops : List Op) (op : Op) :
    chkC07conv tb.cfg (monAfter tb.cfg ops) (recOf tb.cfg (run tb.cfg ops) op) = true :=
  chkC07conv_of_chkC02 _ _ _ (chkC02_ok tb _ _ op (reach tb h ops).1 (reach tb h ops).2)

/-- C07 for every history and every next call -/
theorem C07 (tb : Tabs) (h : EccOk tb) (ops : List Op) (op : Op) :
    chkC07 (monAfter tb.cfg ops) (recOf tb.cfg (run tb.cfg ops) op) = true := by
  have hr := reach tb h ops
  exact chkC07_ok tb _ _ op hr.1 hr.2

/-- progressive mode: the level never increases, and the character is replaced only by a reception whose level is
not worse than the current one -/
theorem C07_cell (cfg : Cfg) (info data : Nat) (old : Cell) (b eb ed : Nat) :
    (cellSpec cfg info data true old b eb ed).lvl ≤ old.lvl ∧
    ((cellSpec cfg info data true old b eb ed) ≠ old →
      (cellSpec cfg info data true old b eb ed).lvl = (if (decide (eb = 0) && decide (ed = 0)) = true then 0 else 2 * eb + 3 * ed - 1)) := by
  have hl := cellSpec_lvl_le cfg info data old b eb ed
  refine ⟨hl, ?_⟩
  unfold cellSpec
  simp only []
  generalize (if (decide (eb = 0) && decide (ed = 0)) = true then 0 else 2 * eb + 3 * ed - 1) = lvl
  split
  · intro _; rfl
  · intro hne; exact absurd rfl hne

/-- once a cell holds an error-free character only another error-free reception can change it -/
theorem C07_error_free_stable (cfg : Cfg) (info data : Nat) (old : Cell) (b eb ed : Nat)
    (h0 : old.lvl = 0) (he : ¬ (eb = 0 ∧ ed = 0)) :
    cellSpec cfg info data true old b eb ed = old := by
  unfold cellSpec
  have : ¬ (2 * eb + 3 * ed - 1 ≤ old.lvl) := by omega
  simp [he, this]

end RDS
