import RdsProps.C01
import RdsProps.C02
import RdsProps.C04
import RdsProps.C06
import RdsProps.C07
import RdsProps.C08
import RdsProps.C09
import RdsProps.C10
import RdsProps.C11
import RdsProps.C12
import RdsProps.C13
import RdsProps.C15
import RdsProps.C16
import RdsProps.C17
import RdsProofs.TableC11
/-!
# The history theorems instantiated with the tables of the compiled library

Every history theorem `Cxx` is proved for an arbitrary table configuration `tb` satisfying the range contract `EccOk`.
`eccOk` (RdsProofs/TableC11.lean) proves that contract of the tables read out of the library compiled from the current
tree, for both charset configurations `u = true` (default) and `u = false` (`RDSPARSER_DISABLE_UNICODE`). Hence each
configuration satisfies the same contract with no hypothesis left — the first half of C20.
-/
namespace RDS

/-- the concrete configuration the driver runs -/
def genTabs (u : Bool) : Tabs := ⟨Generated.cfg u, Generated.countryCount⟩

theorem C01_generated (u : Bool) (ops : List Op) (op : Op) :
    chkC01 (monAfter (genTabs u).cfg (ops ++ [op])) (recOf (genTabs u).cfg (run (genTabs u).cfg ops) op) = true :=
  C01 (genTabs u) (eccOk u) ops op
theorem C02_generated (u : Bool) (ops : List Op) (op : Op) :
    chkCells (genTabs u).cfg (monAfter (genTabs u).cfg ops) (recOf (genTabs u).cfg (run (genTabs u).cfg ops) op) = true :=
  C02_closed_form (genTabs u) (eccOk u) ops op
theorem C04_generated (u : Bool) (ops : List Op) (op : Op) :
    chkC04 (monAfter (genTabs u).cfg ops) (recOf (genTabs u).cfg (run (genTabs u).cfg ops) op) = true :=
  C04 (genTabs u) (eccOk u) ops op
theorem C07_generated (u : Bool) (ops : List Op) (op : Op) :
    chkC07 (monAfter (genTabs u).cfg ops) (recOf (genTabs u).cfg (run (genTabs u).cfg ops) op) = true :=
  C07 (genTabs u) (eccOk u) ops op
theorem C09_generated (u : Bool) (ops : List Op) (op : Op) :
    chkC09 (monAfter (genTabs u).cfg (ops ++ [op])) (recOf (genTabs u).cfg (run (genTabs u).cfg ops) op) = true :=
  C09 (genTabs u) (eccOk u) ops op
theorem C10_generated (u : Bool) (ops : List Op) (op : Op) :
    chkC10 (monAfter (genTabs u).cfg (ops ++ [op])) (recOf (genTabs u).cfg (run (genTabs u).cfg ops) op) = true :=
  C10 (genTabs u) (eccOk u) ops op
theorem C12_generated (u : Bool) (ops : List Op) (op : Op) :
    chkC12 (monAfter (genTabs u).cfg ops) (recOf (genTabs u).cfg (run (genTabs u).cfg ops) op) = true :=
  C12 (genTabs u) (eccOk u) ops op
theorem C13_generated (u : Bool) (ops : List Op) (op : Op) :
    chkC13 (recOf (genTabs u).cfg (run (genTabs u).cfg ops) op) = true :=
  C13 (genTabs u) (eccOk u) ops op
theorem C15_generated (u : Bool) (ops : List Op) (op : Op) :
    chkC15 (monAfter (genTabs u).cfg ops) (recOf (genTabs u).cfg (run (genTabs u).cfg ops) op) = true :=
  C15 (genTabs u) (eccOk u) ops op
theorem C16_generated (u : Bool) (ops : List Op) (op : Op) :
    chkC16 (genTabs u).cfg (recOf (genTabs u).cfg (run (genTabs u).cfg ops) op) = true :=
  C16 (genTabs u) (eccOk u) ops op
theorem C17_generated (u : Bool) (ops : List Op) (op : Op) :
    chkC17 (monAfter (genTabs u).cfg (ops ++ [op])) (recOf (genTabs u).cfg (run (genTabs u).cfg ops) op) = true :=
  C17 (genTabs u) (eccOk u) ops op

end RDS
