import RdsProofs.Reach
import RdsProofs.C05Proofs
import RdsProofs.WFProofs
import RdsProofs.AuditC05C16
/-!
# Property C05 — no memory-unsafe or undefined behaviour (logic part: index arithmetic)

The part of C05 a model can carry: every cell index any group can address is inside the capacity of the addressed
text, for every value of block B (`C05_addressed_in_range`, `C05_positions`); `updateSingle`'s out-of-range outcome occurs
exactly for an index outside the buffer (`C05_oob_iff`), and buffers keep their capacity in every reachable state (`wf_run`),
so that outcome is unreachable from `process`; accepted AF codes index inside the 26-byte bitmap (`C05_af_index`). The model is
total (no `partial`, no fuel). Out-of-bounds accesses the index arithmetic does not explain, uninitialised reads, signed
overflow, libc behaviour and the allocator are exercised by sanitizers, not proved.
-/
-- THEOREM: RDS.C05_addressed_in_range
-- THEOREM: RDS.C05_oob_iff
-- THEOREM: RDS.C05_positions
-- THEOREM: RDS.C05_af_index
-- THEOREM: RDS.C05_length
-- THEOREM: RDS.C05_no_oob_reachable
-- THEOREM: RDS.ac5_process_mirror
-- THEOREM: RDS.C05_no_oob_process
-- THEOREM: RDS.C05_no_oob_step
-- THEOREM: RDS.C05_af_index_process
namespace RDS

/-- in every reachable state, every cell a delivered group addresses exists in the addressed buffer -/
theorem C05_no_oob_reachable (tb : Tabs) (h : EccOk tb) (ops : List Op) (g : Group) :
    ∀ a ∈ addressed g, a.2.1 < ((Obs.ofState (run tb.cfg ops)).text a.1).cells.length := by
  intro a ha
  have hw := (reach tb h ops).2
  have hr := C05_addressed_in_range g a ha
  obtain ⟨h3, hlt⟩ := hr
  have : a.1 = 0 ∨ a.1 = 1 ∨ a.1 = 2 ∨ a.1 = 3 := by omega
  rcases this with h0 | h0 | h0 | h0 <;> rw [h0] at hlt ⊢ <;>
    simp only [Obs.text, Obs.ofState, TextObs.ofText, capOf] at hlt ⊢
  · rw [hw.psLen]; exact hlt
  · rw [hw.rt0Len]; exact hlt
  · rw [hw.rt1Len]; exact hlt
  · rw [hw.ptynLen]; exact hlt

end RDS
