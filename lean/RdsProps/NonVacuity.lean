import RdsProps.C01
import RdsProps.C03
import RdsProps.C07
import RdsProps.C08
import RdsProps.C09
import RdsProps.C11
import RdsProps.C10
import RdsProps.C12
import RdsProps.C13
import RdsProps.C14
import RdsProps.C20
/-!
# Non-vacuity: concrete, non-trivial instances of the hypotheses and of the guarded parts of the predicates

An implication no reachable state satisfies checks fine and means nothing. Each `example` below exhibits a concrete
history on which the hypothesis of a property theorem holds and its conclusion says something non-trivial
(all are closed terms evaluated by the kernel).
-/
namespace RDS

/-- a toy configuration (identity charset, ECC table constantly 7) satisfying `EccOk` -/
def toyCfg : Cfg := ⟨true, fun b => b, fun _ _ => 7⟩
def toyTabs : Tabs := ⟨toyCfg, 10⟩
example : EccOk toyTabs := ⟨by decide, fun _ _ => by show (7 : Nat) < 10; omega⟩

def gA : Group := ⟨0x1234, 0x0408 ||| (5 <<< 5), 0x5A01, 0x4142, 0, 0, 0, 0⟩   -- 0A, PTY 5, TP, MS
def gB : Group := ⟨0x5678, 0x0000 ||| (9 <<< 5), 0x5A01, 0x4142, 0, 0, 0, 0⟩
def gBadB : Group := ⟨0x9999, 0xF000, 0, 0, 0, 3, 0, 0⟩                          -- block B uncorrectable

/-- C01: the guard `clean ∧ ¬ext` of `chkC01` holds on a history with receptions, and the abstract fields are not
"unknown" there: PI = 0x1234, PTY = 5, TP = 1, MS = 1 after one group; an uncorrectable block B changes nothing -/
example : (monAfter toyCfg [.parse gA, .parse gBadB]).clean = true ∧ (monAfter toyCfg [.parse gA, .parse gBadB]).ext = false ∧
    (run toyCfg [.parse gA, .parse gBadB]).used.pi = 0x9999 ∧ (run toyCfg [.parse gA, .parse gBadB]).used.pty = 5 ∧
    (run toyCfg [.parse gA, .parse gBadB]).used.tp = 1 ∧ (run toyCfg [.parse gA, .parse gBadB]).used.ms = 1 := by
  decide +kernel

example : NormalMode [.parse gA, .setExt false, .clear, .parse gB] := by
  intro op h; simp at h; rcases h with h | h | h | h <;> subst h <;> simp

/-- C03: two different groups that `sameUsed` relates (block B flagged uncorrectable: B, C and D are unused) -/
example : sameUsed Settings.init gBadB { gBadB with b := 0x0ABC, c := 77, d := 88 } = true ∧
    gBadB ≠ { gBadB with b := 0x0ABC, c := 77, d := 88 } := by decide

/-- C09: `ExtendedMode` is satisfiable, and on the alternation A,B,A,B nothing is ever accepted, while A,A is -/
example : ExtendedMode [.setExt true, .parse gA, .parse gB, .parse gA, .parse gB] :=
  ⟨_, rfl, by intro op h; simp at h; rcases h with h | h | h | h <;> subst h <;> simp⟩
example : (run toyCfg [.setExt true, .parse gA, .parse gB, .parse gA, .parse gB]).used.pi = -1 ∧
    (run toyCfg [.setExt true, .parse gA, .parse gB, .parse gA, .parse gB]).used.pty = -1 ∧
    (run toyCfg [.setExt true, .parse gA, .parse gA]).used.pi = 0x1234 ∧
    (monAfter toyCfg [.setExt true, .parse gA, .parse gB]).clean = true ∧
    (monAfter toyCfg [.setExt true, .parse gA, .parse gB]).ext = true := by
  decide +kernel

/-- C10: AF code 0x5A (= 90: 96.5 MHz) is listed after one reception in normal mode, only after two under the check -/
example : (run toyCfg [.parse gA]).used.af.getD 0x5A false = true ∧
    (run toyCfg [.setExt true, .parse gA]).used.af.getD 0x5A false = false ∧
    (run toyCfg [.setExt true, .parse gA, .parse gB]).used.af.getD 0x5A false = true := by
  decide +kernel

/-- C12: a concrete report — MJD 60275, 23:45 UTC, offset +1 h (2 half hours) is 2023-11-28 00:45 -/
example : ctInit 60275 23 45 2 = some ⟨2023, 11, 28, 0, 45, 60⟩ := by decide +kernel

/-- C13: a state with hidden history whose `clear` is the fresh state -/
example : clearState (run toyCfg [.setExt true, .parse gA, .setCorr .rt .info 2]) =
    { initState with set := (run toyCfg [.setExt true, .parse gA, .setCorr .rt .info 2]).set } := by
  decide +kernel

/-- C14: an accepted and a rejected string ("1234ABCD5678ef9012" and one with a leading blank) -/
example : (utilsConvert [49,50,51,52,65,66,67,68,53,54,55,56,101,102,57,48,49,50]).isSome = true ∧
    utilsConvert [32,50,51,52,65,66,67,68,53,54,55,56,101,102,57,48] = none := by decide +kernel

/-- C20: `asciiOnly` is true for ordinary text groups and false for one presenting a byte ≥ 0x7F -/
example : (Op.parse gA).asciiOnly = true ∧ (Op.parse { gA with d := 0x8041 }).asciiOnly = false := by decide

/-! ## the clauses added after the mutant rounds: each holds on the model's own record and FAILS on a doctored one
(the record of the same call with the "after" observation replaced by the "before" one — the call ignored, or
with its events dropped), so none of them is satisfied trivially -/

/-- a 2A group, flag B, block B corrected (level 1): the first type-2 group after a reset, with the RT info threshold at 1 -/
def gNoisyB : Group := ⟨0x1234, 0x2010, 0x4142, 0x4344, 0, 1, 0, 0⟩
def histRt : List Op := [.setCorr .rt .info 1]
/-- the record of `op` after `ops`, and the same record with the call's effect dropped -/
def recAfter (ops : List Op) (op : Op) : StepRec := recOf toyCfg (run toyCfg ops) op
def ignored (r : StepRec) : StepRec := { r with after := r.before, evs := [] }
def silent (r : StepRec) : StepRec := { r with evs := [] }

/-- C08 first flag: the noisy first group IS decoded; a library that drops it as a bit-flip fails the clause -/
example : chkC08first toyCfg (monAfter toyCfg histRt) (recAfter histRt (.parse gNoisyB)) = true ∧
    chkC08first toyCfg (monAfter toyCfg histRt) (ignored (recAfter histRt (.parse gNoisyB))) = false := by
  decide +kernel

/-- C07 convergence: with PS progressive, an error-free reception over a corrected cell is taken; ignoring it fails -/
def histProg : List Op := [.setProg .ps true, .setCorr .ps .data 2, .parse ⟨0x1234, 0x0408, 0x5A01, 0x5859, 0, 0, 0, 2⟩]
example : chkC07conv toyCfg (monAfter toyCfg histProg) (recAfter histProg (.parse gA)) = true ∧
    chkC07conv toyCfg (monAfter toyCfg histProg) (ignored (recAfter histProg (.parse gA))) = false := by
  decide +kernel

/-- "received is shown" after the extended check was on and has been switched off: PI/PTY/TP/TA/MS, the AF pair, the ECC -/
def histMixed : List Op := [.setExt true, .parse gB, .setExt false]
def g1A : Group := ⟨0x1234, 0x1000, 0x00E0, 0, 0, 0, 0, 0⟩
example : chkNormalScalars (recAfter histMixed (.parse gA)) = true ∧ chkNormalScalars (ignored (recAfter histMixed (.parse gA))) = false ∧
    chkNormalAf (recAfter histMixed (.parse gA)) = true ∧ chkNormalAf (ignored (recAfter histMixed (.parse gA))) = false ∧
    chkNormalEcc (recAfter histMixed (.parse g1A)) = true ∧ chkNormalEcc (ignored (recAfter histMixed (.parse g1A))) = false := by
  decide +kernel

/-- C10 callback clause: with the AF callback registered the two additions are reported; dropping the reports fails -/
def histReg : List Op := [.register .af true]
example : chkC10cb (monAfter toyCfg histReg) (recAfter histReg (.parse gA)) = true ∧
    chkC10cb (monAfter toyCfg histReg) (silent (recAfter histReg (.parse gA))) = false := by
  decide +kernel

/-- C08 callback clause: A (text), B, back to A with nothing acceptable: the emptied buffer is reported once; silence fails -/
def histSwitch : List Op := [.register .rt true, .parse ⟨0x1234, 0x2000, 0x4142, 0x4344, 0, 0, 0, 0⟩,
  .parse ⟨0x1234, 0x2010, 0x4142, 0x4344, 0, 0, 0, 0⟩]
def gBackA : Group := ⟨0x1234, 0x2001, 0x4142, 0x4344, 0, 0, 3, 3⟩
example : chkC08cb (monAfter toyCfg histSwitch) (recAfter histSwitch (.parse gBackA)) = true ∧
    chkC08cb (monAfter toyCfg histSwitch) (silent (recAfter histSwitch (.parse gBackA))) = false := by
  decide +kernel

/-- C14 round trip: the hypotheses of `C14_string_reaches` are met by an ordinary group -/
example : gNoisyB.a < 65536 ∧ gNoisyB.b < 65536 ∧ gNoisyB.c < 65536 ∧ gNoisyB.d < 65536 ∧ gNoisyB.ea < 4 ∧ gNoisyB.eb < 4 ∧
    gNoisyB.ec < 4 ∧ gNoisyB.ed < 4 := by decide

end RDS
