import RdsProofs.Reach
import RdsProofs.C13Proofs
/-!
# Property C13 — reset forgets all history and keeps all settings

`C13_clear_state`: for every well-formed (hence every reachable) state, `rdsparser_clear` yields exactly the freshly
initialised state with the old settings, callbacks and user data — a *state* equality including the hidden candidates, the AF
candidates and the last RT flag, so nothing of the earlier history can leak. `C13_continuation`: every continuation after the
reset behaves as on a fresh parser with those settings. `C13` = `chkC13` for every history (what the getters show right after
clear / init).
-/
-- THEOREM: RDS.C13
-- THEOREM: RDS.C13_clear_state
-- THEOREM: RDS.C13_continuation
-- THEOREM: RDS.C13_reachable
namespace RDS

/-- C13's getter clause for every history and every next call -/
theorem C13 (tb : Tabs) (h : EccOk tb) (ops : List Op) (op : Op) :
    chkC13 (recOf tb.cfg (run tb.cfg ops) op) = true :=
  chkC13_ok tb _ op (reach tb h ops).2

/-- after any history, clearing gives the fresh state with the settings/observers in force, and every continuation
`post` is traced exactly as from that fresh state -/
theorem C13_reachable (tb : Tabs) (h : EccOk tb) (pre post : List Op) :
    let s := run tb.cfg pre
    clearState s = { initState with set := s.set, cbs := s.cbs, ud := s.ud } ∧
    trace tb.cfg (step tb.cfg s .clear).1 post =
      trace tb.cfg { initState with set := s.set, cbs := s.cbs, ud := s.ud } post :=
  ⟨C13_clear_state tb _ (reach tb h pre).2, C13_continuation tb _ (reach tb h pre).2 post⟩

end RDS
