import RdsC.Prelude
import RdsC.Translated
